package c17

// Part "conc": schedule exploration (engine E3) of OVERLAPPING requests on one shared
// relying party. The statement binds every attempt to "the same browser": the state in
// the authorization URL is the one in the cookie of that response, the code_verifier sent
// to the token endpoint is the one whose S256 challenge was in the URL of the start that
// set the presented pkce cookie. Handlers of one RP serve many browsers at once, so this
// must hold for every interleaving of two (thorough: three) requests, not only for
// sequential histories.
//
// Controlled scheduler: each request runs in its own goroutine, but only one goroutine runs
// at a time; a goroutine hands control back at every *hooked operation* - the operations
// of the handlers that touch objects the harness owns:
//   the state function, every custom URLParamOpt callback, every method of the
//   http.ResponseWriter (Header / WriteHeader / Write: each Set-Cookie and the redirect),
//   the RoundTrip of the RP's HTTP client (token request), the application callback.
// Between two hooked operations a handler runs atomically. That is sufficient for races on
// state shared *between requests* as long as the handler code between two hooks is free of
// unsynchronised shared accesses that could themselves interleave - which the free-running
// race-detector supplement of C20 looks for (it runs these handlers pairwise). E3 explores
// every order of the hooked operations up to the preemption bound.

import (
	"context"
	"fmt"
	"io"
	"net/http"
	"net/http/httptest"
	"net/url"
	"slices"
	"strings"
	"testing"

	"golang.org/x/oauth2"

	httphelper "github.com/zitadel/oidc/v3/pkg/http"
	"github.com/zitadel/oidc/v3/pkg/client/rp"
	"github.com/zitadel/oidc/v3/pkg/oidc"

	"verif/harness/engine"
)

type cthr struct {
	id     string
	resume chan struct{}
	ev     chan string
	next   string
	done   bool
	pan    string
	// observations
	rec      *httptest.ResponseRecorder
	fnStates []string // values the state function returned to this goroutine
	appCalls []cbCall // application callbacks invoked on this goroutine
	unauth   []string
	errh     []string
}

type csched struct {
	thr []*cthr
	cur *cthr
}

// point is a hooked operation: the running goroutine yields to the scheduler.
func (s *csched) point(label string) {
	t := s.cur
	if t == nil { // sequential prelude: no scheduler involved
		return
	}
	t.ev <- label
	<-t.resume
}

type yieldRW struct {
	rec *httptest.ResponseRecorder
	s   *csched
}

func (y *yieldRW) Header() http.Header { y.s.point("rw.Header"); return y.rec.Header() }
func (y *yieldRW) WriteHeader(c int)   { y.s.point("rw.WriteHeader"); y.rec.WriteHeader(c) }
func (y *yieldRW) Write(b []byte) (int, error) {
	y.s.point("rw.Write")
	return y.rec.Write(b)
}

type concProv struct {
	s   *csched
	log []preq
	by  []string // goroutine that sent log[i]
}

func (p *concProv) RoundTrip(req *http.Request) (*http.Response, error) {
	var body []byte
	if req.Body != nil {
		body, _ = io.ReadAll(req.Body)
		req.Body.Close()
	}
	form, _ := url.ParseQuery(string(body))
	p.s.point("provider.token-request")
	who := ""
	if p.s.cur != nil {
		who = p.s.cur.id
	}
	p.log = append(p.log, preq{URL: req.URL.String(), Form: form, Auth: req.Header.Get("Authorization")})
	p.by = append(p.by, who)
	r := jsonResp(req, 200, map[string]any{"access_token": "at-" + form.Get("code"), "token_type": "Bearer", "expires_in": 3600})
	p.s.point("provider.token-response")
	return r, nil
}

type concScen struct {
	Name    string   `json:"name"`
	Threads []string `json:"threads"` // "start:<browser>" | "callback:<browser>"
}

type browser struct {
	stateCk, pkceCk string
	state, verifier string
	chall           string
}

type concWorld struct {
	s        *csched
	prov     *concProv
	party    rp.RelyingParty
	startH   http.Handler
	cbH      http.Handler
	ctr      int
	browsers map[string]*browser
}

func newConcWorld() (*concWorld, error) {
	w := &concWorld{s: &csched{}, browsers: map[string]*browser{}}
	w.prov = &concProv{s: w.s}
	ch := httphelper.NewCookieHandler(k1Hash, k1Block)
	cur := func() *cthr { return w.s.cur }
	var err error
	w.party, err = rp.NewRelyingPartyOAuth(&oauth2.Config{
		ClientID: clientID, ClientSecret: clientSecret, RedirectURL: redirectURI, Scopes: slices.Clone(scopes),
		Endpoint: oauth2.Endpoint{AuthURL: authURL, TokenURL: tokenURL},
	}, rp.WithHTTPClient(&http.Client{Transport: w.prov}), rp.WithPKCE(ch),
		rp.WithUnauthorizedHandler(func(rw http.ResponseWriter, r *http.Request, desc string, state string) {
			if t := cur(); t != nil {
				t.unauth = append(t.unauth, desc)
			}
			http.Error(rw, "unauthorized", http.StatusUnauthorized)
		}),
		rp.WithErrorHandler(func(rw http.ResponseWriter, r *http.Request, errorType, errorDesc, state string) {
			if t := cur(); t != nil {
				t.errh = append(t.errh, errorType+": "+errorDesc)
			}
			http.Error(rw, "error", http.StatusBadRequest)
		}))
	if err != nil {
		return nil, err
	}
	param := func(name, val string) rp.URLParamOpt {
		inner := rp.WithURLParam(name, val)
		return func() []oauth2.AuthCodeOption {
			w.s.point("urlparam." + name)
			return inner()
		}
	}
	params := []rp.URLParamOpt{param("audience", "https://api.example"), param("prompt", "login")}
	w.startH = rp.AuthURLHandler(func() string {
		w.s.point("statefn")
		w.ctr++
		st := stateOf(w.ctr)
		if t := cur(); t != nil {
			t.fnStates = append(t.fnStates, st)
		}
		return st
	}, w.party, params...)
	w.cbH = rp.CodeExchangeHandler(func(rw http.ResponseWriter, r *http.Request, tokens *oidc.Tokens[*oidc.IDTokenClaims], state string, _ rp.RelyingParty) {
		w.s.point("app-callback")
		c := cbCall{state: state, nilTok: tokens == nil || tokens.Token == nil}
		if !c.nilTok {
			c.access = tokens.AccessToken
		}
		if t := cur(); t != nil {
			t.appCalls = append(t.appCalls, c)
		}
		rw.WriteHeader(http.StatusOK)
	}, w.party, params...)
	return w, nil
}

func cookieHeader(b *browser) string {
	var parts []string
	if b.stateCk != "" {
		parts = append(parts, "state="+b.stateCk)
	}
	if b.pkceCk != "" {
		parts = append(parts, "pkce="+b.pkceCk)
	}
	return strings.Join(parts, "; ")
}

// absorbStart reads what a start response handed to the browser.
func absorbStart(rec *httptest.ResponseRecorder, b *browser) {
	for _, c := range (&http.Response{Header: rec.Header()}).Cookies() {
		if c.MaxAge < 0 {
			continue
		}
		switch c.Name {
		case "state":
			b.stateCk = c.Value
			b.state, _ = refDecode(k1Hash, k1Block, "state", c.Value)
		case "pkce":
			b.pkceCk = c.Value
			b.verifier, _ = refDecode(k1Hash, k1Block, "pkce", c.Value)
		}
	}
	if loc, err := url.Parse(rec.Header().Get("Location")); err == nil {
		b.chall = loc.Query().Get("code_challenge")
	}
}

func (w *concWorld) body(kind, br string, t *cthr) func() {
	b := w.browsers[br]
	switch kind {
	case "start":
		return func() {
			req := httptest.NewRequest("GET", loginURL, nil)
			w.startH.ServeHTTP(&yieldRW{t.rec, w.s}, req)
		}
	default: // callback
		return func() {
			q := url.Values{"code": {"code-" + br}, "state": {b.state}}
			req := httptest.NewRequest("GET", redirectURI+"?"+q.Encode(), nil)
			req.Header.Set("Cookie", cookieHeader(b))
			w.cbH.ServeHTTP(&yieldRW{t.rec, w.s}, req)
		}
	}
}

func runConc(sc concScen, ch *engine.Chooser) engine.Result {
	w, err := newConcWorld()
	if err != nil {
		return engine.Bad("conc/setup", "setup-failed", "C17/conc-internal/setup", err.Error())
	}
	// sequential prelude: every browser that presents a callback has started before
	for _, th := range sc.Threads {
		kind, br, _ := strings.Cut(th, ":")
		if w.browsers[br] == nil {
			w.browsers[br] = &browser{}
		}
		if kind == "callback" && w.browsers[br].stateCk == "" {
			rec := httptest.NewRecorder()
			w.startH.ServeHTTP(rec, httptest.NewRequest("GET", loginURL, nil))
			absorbStart(rec, w.browsers[br])
		}
	}
	s := w.s
	for i, th := range sc.Threads {
		kind, br, _ := strings.Cut(th, ":")
		t := &cthr{id: fmt.Sprintf("g%d(%s)", i, th), resume: make(chan struct{}), ev: make(chan string), next: "begin", rec: httptest.NewRecorder()}
		s.thr = append(s.thr, t)
		body := w.body(kind, br, t)
		go func() {
			<-t.resume
			t.pan = engine.Safe(body)
			t.ev <- "\x00done"
		}()
	}
	var last *cthr
	for {
		var enabled []engine.E3Choice
		var who []*cthr
		add := func(t *cthr) {
			enabled = append(enabled, engine.E3Choice{Thread: t.id, Label: t.id + "@" + t.next})
			who = append(who, t)
		}
		if last != nil && !last.done {
			add(last)
		}
		for _, t := range s.thr {
			if !t.done && t != last {
				add(t)
			}
		}
		if len(enabled) == 0 {
			break
		}
		t := who[ch.Choose(enabled, "")]
		s.cur = t
		t.resume <- struct{}{}
		msg := <-t.ev
		s.cur = nil
		if msg == "\x00done" {
			t.done = true
		} else {
			t.next = msg
		}
		last = t
	}
	// ---- judge every request against what the SAME browser received
	for i, th := range sc.Threads {
		kind, br, _ := strings.Cut(th, ":")
		t := s.thr[i]
		rule := "conc/" + kind
		bad := func(what, detail string) engine.Result {
			return engine.Bad(rule, "bad-"+what, "C17/conc/"+kind+"/"+what, fmt.Sprintf("scenario %s, request %s: %s", sc.Name, t.id, detail))
		}
		if t.pan != "" {
			return bad("panic", t.pan)
		}
		if kind == "start" {
			var b browser
			absorbStart(t.rec, &b)
			loc, _ := url.Parse(t.rec.Header().Get("Location"))
			if t.rec.Code < 300 || t.rec.Code >= 400 || loc == nil || len(t.unauth) > 0 {
				return bad("refused", fmt.Sprintf("status %d unauthorized=%v", t.rec.Code, t.unauth))
			}
			q := loc.Query()
			if len(t.fnStates) != 1 {
				return bad("state-function-calls", fmt.Sprint(t.fnStates))
			}
			if b.state != t.fnStates[0] || len(q["state"]) != 1 || q.Get("state") != b.state {
				return bad("state-not-bound-to-cookie", fmt.Sprintf("state function gave %q, cookie of this response holds %q, URL carries %q", t.fnStates[0], b.state, q["state"]))
			}
			if len(q["code_challenge"]) != 1 || b.verifier == "" || q.Get("code_challenge") != s256(b.verifier) || q.Get("code_challenge_method") != "S256" {
				return bad("challenge-not-s256-of-cookie-verifier", fmt.Sprintf("URL challenge %q (%s), S256 of the verifier in this response's pkce cookie %q", q["code_challenge"], q.Get("code_challenge_method"), s256(b.verifier)))
			}
			want := map[string]string{"client_id": clientID, "redirect_uri": redirectURI, "scope": strings.Join(scopes, " "), "response_type": "code",
				"audience": "https://api.example", "prompt": "login"}
			for k, v := range want {
				if len(q[k]) != 1 || q.Get(k) != v {
					return bad("authurl-"+k, fmt.Sprintf("%s=%q want %q", k, q[k], v))
				}
			}
			continue
		}
		b := w.browsers[br]
		if len(t.unauth) > 0 || len(t.errh) > 0 {
			return bad("genuine-callback-refused", fmt.Sprintf("unauthorized=%v error=%v", t.unauth, t.errh))
		}
		if len(t.appCalls) != 1 || t.appCalls[0].state != b.state || t.appCalls[0].access != "at-code-"+br {
			return bad("application-callback", fmt.Sprintf("calls %+v, want one with state %q and the token issued for code-%s", t.appCalls, b.state, br))
		}
		n := 0
		for j, r := range w.prov.log {
			if r.Form.Get("code") != "code-"+br {
				continue
			}
			n++
			if w.prov.by[j] != t.id {
				return bad("token-request-sender", fmt.Sprintf("code-%s sent by %s", br, w.prov.by[j]))
			}
			if r.Form.Get("code_verifier") != b.verifier || s256(r.Form.Get("code_verifier")) != b.chall {
				return bad("verifier-not-the-browsers", fmt.Sprintf("code_verifier %q, this browser's pkce cookie holds %q (challenge in its authorization URL %q)", r.Form.Get("code_verifier"), b.verifier, b.chall))
			}
		}
		if n != 1 {
			return bad("token-requests", fmt.Sprintf("%d token requests for code-%s", n, br))
		}
	}
	if len(w.prov.log) != strings.Count(strings.Join(sc.Threads, " "), "callback:") {
		return engine.Bad("conc/provider", "bad-extra-requests", "C17/conc/provider/extra-token-requests", fmt.Sprint(w.prov.log))
	}
	return engine.OK("conc/"+sc.Name, "every-request-bound-to-its-own-browser")
}

func concPart(c *engine.Check) {
	scens := []concScen{
		{"start||start", []string{"start:A", "start:B"}},
		{"callback||callback", []string{"callback:A", "callback:B"}},
		{"start||callback", []string{"start:B", "callback:A"}},
	}
	if c.Thorough() {
		scens = append(scens,
			concScen{"start||start||start", []string{"start:A", "start:B", "start:C"}},
			concScen{"start||start||callback", []string{"start:B", "start:C", "callback:A"}},
			concScen{"start||callback||callback", []string{"start:C", "callback:A", "callback:B"}},
		)
	}
	var anys []any
	for _, s := range scens {
		anys = append(anys, s)
	}
	c.RunE3(engine.E3{Part: "conc", Bound: engine.Pick(c, 4, 6), Scens: anys,
		Run: func(_ int, scen int, ch *engine.Chooser) engine.Result { return runConc(scens[scen], ch) }})
}

var _ = context.Background
var _ testing.TB
