package c18

// Part "identifiers": the alphabets of the four request parameters and of the identifiers
// behind them.
//
// Every value the end_session endpoint receives is an opaque string. The statement compares
// client ids ("a client_id contradicting the hint"), looks URIs up ("registered exactly"),
// names a session ("that of the hint's subject and client") and hands the state back
// ("unchanged"). A lenient implementation normalises somewhere on the way (trims white space,
// folds case, cuts at a separator, decodes once more); such a change is invisible as long as
// the alphabet only has clean tokens. Here the alphabets are generated:
//
//   * client: the registered client the request is about - "ca" and a family of REGISTERED
//     clients whose ids are near misses of it (white space at either end, case-changed,
//     prefix- / suffix-extended, one character shorter, with '+', '%', '&', '#', '@:/',
//     non-ASCII). All of them are on file at the same time, each with URIs of its own;
//   * client_id: the id of that client byte for byte, none, or a near miss DERIVED from it
//     (leading / trailing blank, tab, LF, CR LF, NBSP; trimmed; upper / lower / one letter
//     flipped; extended by a character, '.x', '+', '%20', '&'; shortened; doubled; B's id) -
//     which is the id of nobody or of ANOTHER registered client;
//   * post_logout_redirect_uri: the client's own URI, its URI with a query, none, the near
//     misses derived from the own URI (white space at either end, %20, '+', case, extended),
//     the URI of the client the near-miss ids derive from, an unregistered one;
//   * state: plain; leading / trailing / inner blank, tab, CR LF, NBSP; only white space;
//     '&', '=', '#', '%', '+', '?', ';', '/', quotes, backslash; percent-encoded text; another
//     state member; non-ASCII; NUL; invalid UTF-8; present but empty; very long;
//   * hint: valid / expired / wrong key for (subject, client), and the same tokens with white
//     space around or inside them;
//   * subject of the hint: plain and with white space / case / special characters.
//
// The oracle is the unchanged reference predicate: identifiers are compared byte for byte.

import (
	"fmt"
	"net/url"
	"strings"
	"sync"
	"testing"

	"verif/harness/engine"
	"verif/harness/rig"
)

type strForm struct {
	key  string
	full bool // thorough only
	f    func(string) string
}

func sfx(x string) func(string) string { return func(s string) string { return s + x } }
func pfx(x string) func(string) string { return func(s string) string { return x + s } }

// white space at the ends of a value
var wsEdges = []strForm{
	{key: "trailing-blank", f: sfx(" ")},
	{key: "leading-blank", f: pfx(" ")},
	{key: "blank-both-ends", f: func(s string) string { return " " + s + " " }},
	{key: "trailing-tab", f: sfx("\t")},
	{key: "leading-tab", f: pfx("\t")},
	{key: "trailing-lf", f: sfx("\n")},
	{key: "leading-lf", f: pfx("\n")},
	{key: "trailing-crlf", f: sfx("\r\n")},
	{key: "leading-crlf", f: pfx("\r\n")},
	{key: "trailing-nbsp", f: sfx("\u00a0")},
	{key: "trailing-vt-ff", full: true, f: sfx("\v\f")},
	{key: "leading-nel", full: true, f: pfx("\u0085")},
	{key: "trailing-em-space", full: true, f: sfx("\u2003")},
	{key: "trailing-nul", full: true, f: sfx("\x00")},
}

func flipLastLetter(s string) string {
	for i := len(s) - 1; i >= 0; i-- {
		if c, ok := flipCase(s[i]); ok {
			return s[:i] + string(c) + s[i+1:]
		}
	}
	return s
}

// ---------------------------------------------------------------------------
// registered clients of the part

type idClient struct{ key, id string }

// index 0 is A; every other id is a near miss of A's id.
var idClients = []idClient{
	{"A", clA},
	{"id-trailing-blank", clA + " "},
	{"id-leading-blank", " " + clA},
	{"id-blank-both-ends", " " + clA + " "},
	{"id-trailing-tab", clA + "\t"},
	{"id-trailing-lf", clA + "\n"},
	{"id-leading-crlf", "\r\n" + clA},
	{"id-trailing-nbsp", clA + "\u00a0"},
	{"id-inner-blank", "c a"},
	{"id-upper", "CA"},
	{"id-one-letter-upper", "cA"},
	{"id-suffix-extended", clA + "x"},
	{"id-prefix-extended", "x" + clA},
	{"id-shorter", "c"},
	{"id-dot-extended", clA + ".x"},
	{"id-plus", clA + "+"},
	{"id-percent", clA + "%20"},
	{"id-amp", clA + "&client_id=" + clB},
	{"id-hash", clA + "#"},
	{"id-at-colon-slash", clA + "@x:/y"},
	{"id-non-ascii", "cä"},
}

func idClientIdx(key string) int {
	for i, c := range idClients {
		if c.key == key {
			return i
		}
	}
	panic("c18: no identifier client " + key)
}

func idURI(i int) string  { return fmt.Sprintf("https://id.example/out/%d", i) }
func idURIQ(i int) string { return fmt.Sprintf("https://id.example/q/%d?k=v", i) }

const idRegKey = "identifier-clients"

var idRegsOnce = sync.OnceValue(func() []regDef {
	rd := regDef{key: idRegKey}
	rd.exA = append(append([]string{}, aExact...), idURI(0), idURIQ(0))
	for i, c := range idClients[1:] {
		rd.extra = append(rd.extra, extraClient{id: c.id, exact: []string{idURI(i + 1), idURIQ(i + 1), "https://shared.example/out"}})
	}
	return []regDef{rd}
})

func idRegs() []regDef { return idRegsOnce() }

// ---------------------------------------------------------------------------
// client_id, derived from the id of the client the request is about

var idCIDForms = append(append([]strForm{
	{key: "exact", f: func(s string) string { return s }},
	{key: "absent", f: func(string) string { return "" }},
}, wsEdges...), []strForm{
	{key: "trimmed", f: strings.TrimSpace},
	{key: "upper", f: strings.ToUpper},
	{key: "lower", f: strings.ToLower},
	{key: "last-letter-case-flipped", f: flipLastLetter},
	{key: "suffix-extended", f: sfx("x")},
	{key: "prefix-extended", f: pfx("x")},
	{key: "one-shorter", f: func(s string) string { return s[:len(s)-1] }},
	{key: "first-dropped", f: func(s string) string { return s[1:] }},
	{key: "suffix-dot-x", f: sfx(".x")},
	{key: "doubled", f: func(s string) string { return s + s }},
	{key: "suffix-plus", f: sfx("+")},
	{key: "suffix-percent-20", f: sfx("%20")},
	{key: "suffix-amp", f: sfx("&")},
	{key: "suffix-comma-B", f: sfx("," + clB)},
	{key: "id-of-B", f: func(string) string { return clB }},
	{key: "suffix-slash", full: true, f: sfx("/")},
	{key: "suffix-colon", full: true, f: sfx(":")},
	{key: "suffix-hash", full: true, f: sfx("#")},
	{key: "percent-encoded", full: true, f: func(s string) string { return "%" + fmt.Sprintf("%02X", s[0]) + s[1:] }},
	{key: "quoted", full: true, f: func(s string) string { return `"` + s + `"` }},
}...)

// ---------------------------------------------------------------------------
// post_logout_redirect_uri, derived from the client's own URI (its index is i)

type uriForm struct {
	key  string
	full bool
	f    func(i int) string
}

func ofOwn(sf strForm) uriForm {
	return uriForm{key: sf.key, full: sf.full, f: func(i int) string { return sf.f(idURI(i)) }}
}

var idURIForms = func() []uriForm {
	out := []uriForm{
		{key: "own", f: idURI},
		{key: "absent", f: func(int) string { return "" }},
		{key: "own-with-query", f: idURIQ},
	}
	for _, w := range wsEdges {
		out = append(out, ofOwn(w))
	}
	for _, sf := range []strForm{
		{key: "trailing-percent-20", f: sfx("%20")},
		{key: "trailing-plus", f: sfx("+")},
		{key: "upper", f: strings.ToUpper},
		{key: "last-letter-case-flipped", f: flipLastLetter},
		{key: "suffix-extended", f: sfx("0")},
		{key: "suffix-slash", f: sfx("/")},
		{key: "one-shorter", f: func(s string) string { return s[:len(s)-1] }},
		{key: "prefix-extended", f: pfx("https://evil.example/?u=")},
		{key: "own-query-trailing-blank", f: func(s string) string { return strings.Replace(s, "/out/", "/q/", 1) + "?k=v " }},
		{key: "trailing-hash", full: true, f: sfx("#")},
		{key: "trailing-question-mark", full: true, f: sfx("?")},
		{key: "scheme-upper", full: true, f: func(s string) string { return "HTTPS" + strings.TrimPrefix(s, "https") }},
		{key: "percent-encoded-blank-both-ends", full: true, f: func(s string) string { return "%20" + s + "%20" }},
	} {
		out = append(out, ofOwn(sf))
	}
	return append(out,
		// the URI of the client every near-miss id derives from (for A itself: one of B's)
		uriForm{key: "of-the-near-client", f: func(i int) string {
			if i == 0 {
				return bExact[0]
			}
			return idURI(0)
		}},
		uriForm{key: "shared-by-all", f: func(int) string { return "https://shared.example/out" }},
		uriForm{key: "unregistered", f: func(int) string { return "https://evil.example/" }},
	)
}()

// ---------------------------------------------------------------------------
// state

const idStateEmpty = "(present-but-empty)"

var idStates = []kv{
	{"plain", "s"}, {"absent", ""}, {idStateEmpty, ""},
	{"leading-blank", " s"}, {"trailing-blank", "s "}, {"blank-both-ends", " s "}, {"inner-blank", "a b"},
	{"only-blanks", "  "}, {"only-crlf", "\r\n"},
	{"leading-tab", "\ts"}, {"trailing-tab", "s\t"}, {"inner-tab", "a\tb"},
	{"leading-lf", "\ns"}, {"trailing-lf", "s\n"}, {"leading-crlf", "\r\ns"}, {"trailing-crlf", "s\r\n"}, {"inner-crlf", "a\r\nb"},
	{"trailing-nbsp", "s\u00a0"}, {"leading-em-space", "\u2003s"},
	{"amp", "a&b"}, {"only-amp", "&"}, {"equals", "a=b"}, {"only-equals", "="}, {"hash", "a#b"}, {"only-hash", "#"},
	{"percent", "100%"}, {"percent-encoded-letter", "%41"}, {"percent-encoded-plus", "%2B"}, {"percent-encoded-blank", "a%20b"}, {"percent-25", "%2541"},
	{"plus", "a+b"}, {"only-plus", "+"}, {"blank-plus", " +"},
	{"question-mark", "a?b=c"}, {"semicolon", "a;b"}, {"slash-url", "https://evil.example/?x=1&y=2#f"},
	{"another-state-member", "x&state=y"}, {"quotes-angle", `"'<>`}, {"backslash", `a\b`},
	{"non-ascii", "ä✓日本"}, {"mixed-case", "AbC"}, {"nul", "a\x00b"}, {"invalid-utf8", "a\xffb"},
	{"long-4096", strings.Repeat("x", 4095) + " "},
	// thorough
	{"trailing-vt", "s\v"}, {"leading-ff", "\fs"}, {"leading-nel", "\u0085s"}, {"del", "a\x7fb"}, {"bom", "\ufeffs"},
	{"percent-00", "a%00b"}, {"lone-percent-at-end", "a%"}, {"percent-non-hex", "%zz"},
	{"long-65536", " " + strings.Repeat("y", 65535)},
}

// the quick tier ends with the long state
var quickIDStates = func() int {
	for i, s := range idStates {
		if s.key == "long-4096" {
			return i + 1
		}
	}
	panic("c18: idStates")
}()

// ---------------------------------------------------------------------------
// hint and subject

var idSubjects = []kv{
	{"plain", subject}, {"trailing-blank", subject + " "}, {"leading-blank", " " + subject}, {"trailing-lf", subject + "\n"},
	{"upper", strings.ToUpper(subject)}, {"inner-blank", "u 1"}, {"special", "u1+%20&x=1#@:/ä"},
	// thorough
	{"leading-tab", "\t" + subject}, {"trailing-nbsp", subject + "\u00a0"}, {"other-user", "u2"},
}

const quickIDSubjects = 7

var idHintKinds = []string{"valid", "absent", "expired", "wrong-key"}

// white space around / inside the compact token
var idHintEdges = append([]strForm{{key: "none", f: func(s string) string { return s }}}, append(append([]strForm{}, wsEdges...),
	strForm{key: "lf-after-first-dot", f: func(s string) string { i := strings.IndexByte(s, '.'); return s[:i+1] + "\n" + s[i+1:] }},
	strForm{key: "blank-inside-signature", f: func(s string) string { return s[:len(s)-4] + " " + s[len(s)-4:] }},
)...)

var idTokens sync.Map // kind|client|sub → compact token

func idToken(kind, client, sub string) string {
	k := kind + "|" + client + "|" + sub
	if v, ok := idTokens.Load(k); ok {
		return v.(string)
	}
	opts := []claimOpt{set("sub", sub), set("azp", client), set("aud", []any{client})}
	if kind == "expired" {
		opts = append(opts, expired())
	}
	var tok string
	if kind == "wrong-key" {
		tok = wrongKey(payload(opts...))
	} else {
		tok = good(payload(opts...))
	}
	v, _ := idTokens.LoadOrStore(k, tok)
	return v.(string)
}

// idHint: the reference's reading of the hint.
func idHint(kind, edge, client, sub string) *hintDef {
	if kind == "absent" {
		return &hintDef{key: "absent", verdict: hintAbsent, family: "no-hint"}
	}
	d := &hintDef{key: kind + "/" + edge, azp: client, sub: sub, token: idToken(kind, client, sub)}
	switch kind {
	case "valid":
		d.verdict, d.family = hintVerifies, "valid-hint"
	case "expired":
		d.verdict, d.family = hintVerifies, "expired-hint"
	case "wrong-key":
		d.verdict, d.family, d.badRule = hintInvalid, "invalid-hint", "hint-bad-signature"
	default:
		panic("c18: hint kind " + kind)
	}
	if edge != "none" {
		for _, f := range idHintEdges {
			if f.key == edge {
				d.token = f.f(d.token)
			}
		}
		if d.verdict == hintVerifies {
			// the statement does not say whether white space around a compact token is part of it:
			// accepting (it then proves azp) and refusing are both fine. A bad signature stays bad.
			d.verdict, d.family = hintOpen, "open-hint"
		}
	}
	return d
}

// ---------------------------------------------------------------------------

func formKeys[T any](l []T, full bool, key func(T) (string, bool)) []string {
	var out []string
	for _, x := range l {
		if k, th := key(x); full || !th {
			out = append(out, k)
		}
	}
	return out
}

func strFormOf(l []strForm, key string) strForm {
	for _, f := range l {
		if f.key == key {
			return f
		}
	}
	panic("c18: no form " + key)
}

func runIdentifiers(t *testing.T, c *engine.Check, full bool) {
	sk := func(f strForm) (string, bool) { return f.key, f.full }
	var clientKeys []string
	for _, cl := range idClients {
		clientKeys = append(clientKeys, cl.key)
	}
	uriKeys := formKeys(idURIForms, full, func(f uriForm) (string, bool) { return f.key, f.full })
	nStates, nSubs := quickIDStates, quickIDSubjects
	if full {
		nStates, nSubs = 0, 0
	}
	space := engine.Space{
		engine.D("client", clientKeys...),
		engine.D("hint", idHintKinds...),
		engine.D("hint-white-space", formKeys(idHintEdges, full, sk)...),
		engine.D("client_id", formKeys(idCIDForms, full, sk)...),
		engine.D("uri", uriKeys...),
		engine.D("state", keysOf(idStates, nStates)...),
		engine.D("subject", keysOf(idSubjects, nSubs)...),
		engine.D("router", rig.Routers...),
		engine.D("method", "GET", "POST"),
		engine.D("default", keysOf(defaults, quickDefaults)...),
		engine.D("storage", "TerminateSession", "TerminateSessionFromRequest"),
	}
	uriFormOf := func(key string) uriForm {
		for _, f := range idURIForms {
			if f.key == key {
				return f
			}
		}
		panic("c18: no uri form " + key)
	}
	type resolved struct {
		ci                int
		clientID, uriVal  string
		hintKind, hintEdg string
	}
	resolve := func(g func(string) string) resolved {
		ci := idClientIdx(g("client"))
		return resolved{ci: ci, clientID: strFormOf(idCIDForms, g("client_id")).f(idClients[ci].id),
			uriVal: uriFormOf(g("uri")).f(ci), hintKind: g("hint"), hintEdg: g("hint-white-space")}
	}
	c.Extra("identifiers-alphabet", map[string]any{"clients": len(clientKeys), "client_id_forms": len(space[space.Idx("client_id")].Vals),
		"uri_forms": len(uriKeys), "states": len(space[space.Idx("state")].Vals), "subjects": len(space[space.Idx("subject")].Vals),
		"hint_white_space_forms": len(space[space.Idx("hint-white-space")].Vals)})
	e := engine.E1{
		Part:  "identifiers",
		Space: space,
		NewWorker: func(int) func(engine.Vec) engine.Result {
			rigs := map[string]*rig.Rig{}
			return func(v engine.Vec) engine.Result {
				g := func(n string) string { return space.Get(v, n) }
				key := g("default") + "|" + g("storage")
				r := rigs[key]
				if r == nil {
					r = newRig(g("default"), idRegKey, g("storage"))
					rigs[key] = r
				}
				rs := resolve(g)
				sub := ""
				if rs.hintKind != "absent" {
					sub = valOf(idSubjects, g("subject"))
				}
				cs := caseT{hint: idHint(rs.hintKind, rs.hintEdg, idClients[rs.ci].id, sub), clientID: rs.clientID,
					uri:   uriDef{key: g("uri"), val: rs.uriVal, class: "uri-" + g("uri")},
					state: valOf(idStates, g("state")), emptyState: g("state") == idStateEmpty,
					def: valOf(defaults, g("default")), reg: regOf(idRegKey), storage: g("storage"), router: g("router"), method: g("method")}
				form := url.Values{}
				if cs.hint.token != "" {
					form.Set("id_token_hint", cs.hint.token)
				}
				if cs.clientID != "" {
					form.Set("client_id", cs.clientID)
				}
				if cs.uri.val != "" {
					form.Set("post_logout_redirect_uri", cs.uri.val)
				}
				if cs.state != "" || cs.emptyState {
					form.Set("state", cs.state)
				}
				res := judge(cs, executeAt(t, r, routerIdx(cs.router), cs.method, form, rig.Host, nil))
				if res.Sig != "" {
					res.Detail = fmt.Sprintf("client=%s (%q) client_id form=%s uri form=%s state=%s subject=%s | %s",
						g("client"), idClients[rs.ci].id, g("client_id"), g("uri"), g("state"), g("subject"), res.Detail)
				}
				return res
			}
		},
	}
	if full {
		e.Groups = [][]string{
			{"client", "hint", "client_id", "uri", "router", "method"},
			{"client", "hint", "hint-white-space", "client_id", "router", "method"},
			{"state", "uri", "default", "router", "method", "hint"},
			{"subject", "client", "hint", "client_id", "storage", "router", "method"},
			{"state", "router", "method"},
			{},
		}
		e.Ks = []int{0, 0, 0, 0, 2, 3}
	} else {
		e.Groups = [][]string{
			// who asks x for which client x which URI, on both routers
			{"client", "hint", "client_id", "uri", "router"},
			// white space around the token
			{"client", "hint", "hint-white-space", "router", "method"},
			// every state towards every kind of target
			{"state", "uri", "default", "router", "method"},
			// whose session
			{"subject", "client", "hint", "storage", "router", "method"},
			// every state beside every single deviation of everything else
			{"state", "router", "method"},
			// all pairs of deviations
			{},
		}
		e.Ks = []int{0, 0, 0, 0, 1, 2}
	}
	// vectors that repeat another one: a derived value that coincides with the value it derives
	// from, white space around / a subject inside a hint that is not sent
	ci, hi, wi, di, ui, si := space.Idx("client"), space.Idx("hint"), space.Idx("hint-white-space"), space.Idx("client_id"), space.Idx("uri"), space.Idx("subject")
	dupCID := map[[2]int]bool{}
	dupURI := map[[2]int]bool{}
	for a := range space[ci].Vals {
		id := idClients[a].id
		seen := map[string]bool{}
		for b, k := range space[di].Vals {
			val := strFormOf(idCIDForms, k).f(id)
			if seen[val] {
				dupCID[[2]int{a, b}] = true
			}
			seen[val] = true
		}
		seenU := map[string]bool{}
		for b, k := range space[ui].Vals {
			val := uriFormOf(k).f(a)
			if seenU[val] {
				dupURI[[2]int{a, b}] = true
			}
			seenU[val] = true
		}
	}
	e.Skip = func(v engine.Vec) bool {
		if space[hi].Vals[v[hi]] == "absent" && (v[wi] != 0 || v[si] != 0) {
			return true
		}
		return dupCID[[2]int{v[ci], v[di]}] || dupURI[[2]int{v[ci], v[ui]}]
	}
	c.RunE1(e)
}
