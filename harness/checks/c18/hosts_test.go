package c18

// Part "hosts": histories on ONE long-lived provider that serves two issuers.
//
// The provider is built for the case (nothing an earlier case did can be remembered) with a
// request-derived issuer - op.IssuerFromHost(""), op.IssuerFromForwardedOrHost("") - or, as
// the control, with the static issuer while requests arrive under two Host values. Hints are
// minted under issuer A (https://op.example, subject u1) and issuer B (https://b.example,
// subject u2). A case is a sequence of 2 (thorough 3) end_session requests, each addressed to
// host a or b, on the two routers of the same provider object. EVERY request of the sequence
// is judged by the unchanged single-request reference predicate for ITS host: a hint of the
// other issuer is foreign and must be rejected, the host's own hint (also expired) must be
// accepted, redirect to the registered URI and terminate the session of the hint's subject.
// In addition the outcome class of every later request must equal the one the same request
// gets as the first request of a fresh provider's life.

import (
	"fmt"
	"net/url"
	"strings"
	"sync"
	"testing"

	"github.com/zitadel/oidc/v3/pkg/op"

	"verif/harness/engine"
	"verif/harness/rig"
)

const (
	hostA   = rig.Host // issuer rig.Issuer
	hostB   = "b.example"
	issuerB = "https://" + hostB
	subB    = "u2"
	// what the request's own Host says when the issuer host travels in the Forwarded header
	proxyHost = "proxy.internal"
)

func issuerOfHost(h string) string {
	if h == "a" {
		return rig.Issuer
	}
	return issuerB
}

// hints of the part: issuer x kind
type hostHint struct {
	key    string
	issuer string // "a" | "b" | "" (no hint; client_id = A)
	kind   string // valid | expired | wrongkey
	token  string
}

var hostHints = []*hostHint{
	{key: "iss-a", issuer: "a", kind: "valid"},
	{key: "iss-b", issuer: "b", kind: "valid"},
	{key: "iss-a-expired", issuer: "a", kind: "expired"},
	{key: "iss-b-expired", issuer: "b", kind: "expired"},
	{key: "iss-a-wrongkey", issuer: "a", kind: "wrongkey"},
	{key: "iss-b-wrongkey", issuer: "b", kind: "wrongkey"},
	{key: "none", issuer: "", kind: "absent"},
}

var hostHintOnce sync.Once

func hostHintOf(key string) *hostHint {
	hostHintOnce.Do(func() {
		for _, h := range hostHints {
			if h.issuer == "" {
				continue
			}
			var opts []claimOpt
			if h.issuer == "b" {
				opts = append(opts, set("iss", issuerB), set("sub", subB))
			}
			if h.kind == "expired" {
				opts = append(opts, expired())
			}
			if h.kind == "wrongkey" {
				h.token = wrongKey(payload(opts...))
			} else {
				h.token = good(payload(opts...))
			}
		}
	})
	for _, h := range hostHints {
		if h.key == key {
			return h
		}
	}
	panic("c18: no host hint " + key)
}

// refHint: the reference's reading of hint h at a request whose issuer is eff ("a" | "b").
func refHint(h *hostHint, eff string) *hintDef {
	d := &hintDef{key: h.key, azp: clA, sub: subject, token: h.token}
	if h.issuer == "b" {
		d.sub = subB
	}
	switch {
	case h.issuer == "":
		return &hintDef{key: h.key, verdict: hintAbsent, family: "no-hint"}
	case h.kind == "wrongkey":
		d.verdict, d.family, d.badRule = hintInvalid, "invalid-hint", "hint-bad-signature"
	case h.issuer != eff:
		d.verdict, d.family, d.badRule = hintInvalid, "invalid-hint", "hint-foreign-issuer"
	case h.kind == "expired":
		d.verdict, d.family = hintVerifies, "expired-hint"
	default:
		d.verdict, d.family = hintVerifies, "valid-hint"
	}
	return d
}

// a step: host ":" hint ":" uri
var hostURIs = []uriDef{
	{"reg", "https://a.example/out", "registered-for-A"},
	{"near", "https://a.example/out/", "near-miss"},
}

func hostSteps() []string {
	var out []string
	for _, host := range []string{"a", "b"} {
		for _, h := range hostHints {
			for _, u := range hostURIs {
				if u.key != "reg" && (h.kind == "wrongkey" || h.kind == "absent") {
					continue
				}
				out = append(out, host+":"+h.key+":"+u.key)
			}
		}
	}
	return out
}

type hostStep struct {
	host string
	hint *hostHint
	uri  uriDef
}

func parseStep(s string) hostStep {
	p := strings.Split(s, ":")
	st := hostStep{host: p[0], hint: hostHintOf(p[1])}
	for _, u := range hostURIs {
		if u.key == p[2] {
			st.uri = u
		}
	}
	return st
}

func issuerFnOf(via string) func(bool) (op.IssuerFromRequest, error) {
	switch via {
	case "host":
		return op.IssuerFromHost("")
	case "forwarded":
		return op.IssuerFromForwardedOrHost("")
	case "static":
		return nil
	}
	panic("via " + via)
}

func runHosts(t *testing.T, c *engine.Check, full bool) {
	steps := hostSteps()
	space := engine.Space{
		engine.D("first", steps...),
		engine.D("second", steps...),
		engine.D("third", append([]string{"-"}, steps...)...),
		engine.D("router", rig.Routers...),
		engine.D("earlier-router", "same", "other"),
		engine.D("issuer-from", "host", "static", "forwarded"),
		engine.D("storage", "TerminateSession", "TerminateSessionFromRequest"),
		engine.D("method", "GET", "POST"),
	}
	e := engine.E1{Part: "hosts", Space: space}
	if full {
		// all pairs and triples on every router combination under every issuer strategy, storage
		// and method as single deviations
		e.Groups = [][]string{{"first", "second", "third", "router", "earlier-router", "issuer-from"}}
		e.K = 1
	} else {
		// all pairs on every router combination under every issuer strategy; all triples on the
		// Provider router under IssuerFromHost; storage and method as single deviations of the pairs
		e.Groups = [][]string{{"first", "second", "router", "earlier-router", "issuer-from"}, {"first", "second", "third"}, {"first", "second"}}
		e.Ks = []int{0, 0, 1}
	}
	e.NewWorker = func(int) func(engine.Vec) engine.Result {
		fresh := map[string]string{} // outcome class of a request as the first request of a provider's life
		return func(v engine.Vec) engine.Result {
			g := func(n string) string { return space.Get(v, n) }
			via, storage, method := g("issuer-from"), g("storage"), g("method")
			last := routerIdx(g("router"))
			earlier := last
			if g("earlier-router") == "other" {
				earlier = 1 - last
			}
			seq := []string{g("first"), g("second")}
			if g("third") != "-" {
				seq = append(seq, g("third"))
			}
			build := func() *rig.Rig { return newRigIss("relative", "exact-only", storage, issuerFnOf(via)) }
			// one request, judged alone
			serve := func(r *rig.Rig, router int, step string, pos int) (engine.Result, string) {
				st := parseStep(step)
				eff := st.host
				if via == "static" {
					eff = "a" // the configured issuer, whatever the Host says
				}
				cs := caseT{hint: refHint(st.hint, eff), uri: st.uri, state: fmt.Sprintf("st-%d", pos),
					def: valOf(defaults, "relative"), reg: regOf("exact-only"), storage: storage, router: rig.Routers[router], method: method}
				form := url.Values{"post_logout_redirect_uri": {st.uri.val}, "state": {cs.state}}
				if st.hint.issuer == "" {
					cs.clientID = clA
					form.Set("client_id", clA)
				} else {
					form.Set("id_token_hint", st.hint.token)
				}
				host := hostA
				if st.host == "b" {
					host = hostB
				}
				var hdr map[string]string
				if via == "forwarded" {
					hdr = map[string]string{"Forwarded": "for=192.0.2.1;host=" + host + ";proto=https"}
					host = proxyHost
				}
				res := judge(cs, executeAt(t, r, router, method, form, host, hdr))
				return res, cs.hint.family
			}
			r := build()
			var res engine.Result
			for i, step := range seq {
				router := earlier
				if i == len(seq)-1 {
					router = last
				}
				var fam string
				res, fam = serve(r, router, step, i+1)
				rel := "first-request"
				if i > 0 {
					rel = "after-same-host"
					for _, p := range seq[:i] {
						if p[0] != step[0] {
							rel = "after-other-host"
						}
					}
				}
				if res.Sig != "" {
					res.Sig += "/" + rel
					res.Detail = fmt.Sprintf("request %d of %v (issuer from %s): %s", i+1, seq, via, res.Detail)
					return res
				}
				if i == 0 {
					continue
				}
				fk := fmt.Sprintf("%s|%s|%s|%d|%s|%d", via, storage, method, router, step, i+1)
				want, ok := fresh[fk]
				if !ok {
					fr, _ := serve(build(), router, step, i+1)
					want = fr.Outcome
					fresh[fk] = want
				}
				if want != res.Outcome {
					return engine.Bad(res.Rule, res.Outcome, "C18/answer-depends-on-history/"+rig.Routers[router]+"/"+fam+"/"+rel,
						fmt.Sprintf("request %d of %v (issuer from %s) is answered %s, the same request as the first request of a fresh provider %s", i+1, seq, via, res.Outcome, want))
				}
			}
			return res
		}
	}
	c.RunE1(e)
}
