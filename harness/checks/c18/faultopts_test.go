package c18

// Two parts added in round 5, both judged by the reference logout predicate of oracle_test.go.
//
// Part "provider-options" (family: constructor option subsets and orders). op.NewProvider takes
// two key-set options, op.WithAccessTokenKeySet and op.WithIDTokenHintKeySet. "A validly signed
// id_token_hint" is a hint signed by a key of the key set the HINT verifier was configured with:
// the set passed with WithIDTokenHintKeySet, or - as the option documents - the key set of the
// storage when that option is absent. The access-token key set never enters. Every ordered subset
// of the two options is given to a real op.NewProvider; the storage publishes one generation of
// keys, the two custom sets hold other keys under the SAME kids, an attacker holds a fourth
// generation. Hints signed by a key of {storage set, custom access-token set, custom hint set,
// attacker} are sent to /end_session.
//
// Part "storage-faults" (family: fault plus oracle on the journal). Each storage call of the
// end_session journal (KeySet, GetClientByClientID, TerminateSession /
// TerminateSessionFromRequest) is made to fail, with an opaque error, with *oidc.Error values
// (bare and wrapped) and with context errors. "The session terminated is that of the hint's
// subject and client": a redirect signals the completed logout, so it requires a terminate call
// for that subject and client that SUCCEEDED. A faulted call terminates nothing; it is taken out
// of the journal before the reference predicate looks at it. A fault makes refusing legitimate
// everywhere; everything the statement forbids stays forbidden (a hint with a bad signature is
// not accepted because the key set could not be read, an unregistered URI is not redirected to
// because the client could not be read).

import (
	"context"
	"errors"
	"fmt"
	"net/url"
	"strings"
	"sync"
	"sync/atomic"
	"testing"

	jose "github.com/go-jose/go-jose/v4"

	"github.com/zitadel/oidc/v3/pkg/oidc"
	"github.com/zitadel/oidc/v3/pkg/op"

	"verif/harness/engine"
	"verif/harness/rig"
	"verif/harness/rig/keys"
	"verif/harness/rig/refstore"
)

// ---------------------------------------------------------------------------
// part provider-options

const (
	poKidEC  = "sig-1" // the kid rig.DefaultConfig publishes the ES256 key under
	poKidRSA = "sig-rsa"
)

var (
	poConfigs = []string{"none", "atks", "hintks", "atks>hintks", "hintks>atks"}
	poSigners = []string{"st", "at", "hint", "x"}
	// key fixtures per generation: [ES256, RS256]. "st" = what the storage publishes.
	poFixtures = map[string][2]string{
		"st": {"p256a", "rsa1"}, "at": {"p256b", "rsa2"}, "hint": {"p256c", "rsa3"}, "x": {"ec_sec1", "rsa4"},
	}
	poAlgs  = []string{"ES256", "RS256"}
	poForms = []string{"valid-A", "expired-A", "valid-B", "expired-B"}
)

func poPubKeys(gen string) []*refstore.PubKey {
	f := poFixtures[gen]
	return []*refstore.PubKey{
		{KID: poKidEC, Alg: jose.ES256, Usage: "sig", Pub: keys.Get(f[0]).PubForJose()},
		{KID: poKidRSA, Alg: jose.RS256, Usage: "sig", Pub: keys.Get(f[1]).PubForJose()},
	}
}

// staticSet is an application-supplied oidc.KeySet over a fixed JWKS.
type staticSet struct{ keys []jose.JSONWebKey }

func (s staticSet) VerifySignature(_ context.Context, jws *jose.JSONWebSignature) ([]byte, error) {
	kid, alg := oidc.GetKeyIDAndAlg(jws)
	k, err := oidc.FindMatchingKey(kid, oidc.KeyUseSignature, alg, s.keys...)
	if err != nil {
		return nil, err
	}
	_, _, payload, err := jws.VerifyMulti(&k)
	return payload, err
}

// ksStorage gives op.OpenIDKeySet another key source than the provider's storage.
type ksStorage struct {
	op.Storage
	keys []op.Key
}

func (s *ksStorage) KeySet(context.Context) ([]op.Key, error) { return s.keys, nil }

func poHas(config, o string) bool { return strings.Contains(">"+config+">", ">"+o+">") }

func poOptions(config string) (opts []op.Option) {
	if config == "none" {
		return nil
	}
	for _, o := range strings.Split(config, ">") {
		switch o {
		case "atks":
			var ks []jose.JSONWebKey
			for _, k := range poPubKeys("at") {
				ks = append(ks, jose.JSONWebKey{Key: k.Pub, KeyID: k.KID, Algorithm: string(k.Alg), Use: "sig"})
			}
			opts = append(opts, op.WithAccessTokenKeySet(staticSet{keys: ks}))
		case "hintks":
			var ks []op.Key
			for _, k := range poPubKeys("hint") {
				ks = append(ks, k)
			}
			opts = append(opts, op.WithIDTokenHintKeySet(&op.OpenIDKeySet{Storage: &ksStorage{keys: ks}}))
		default:
			panic(o)
		}
	}
	return opts
}

var poTokens sync.Map // id -> compact token

// poHint: the hint of one case and the reference's verdict about it under the key set the hint
// verifier was configured with.
func poHint(config, signer, alg, tkid, form string) *hintDef {
	ai := 0
	kid := poKidEC
	if alg == "RS256" {
		ai, kid = 1, poKidRSA
	}
	if tkid == "nokid" {
		kid = ""
	}
	id := signer + "|" + alg + "|" + tkid + "|" + form
	tok, ok := poTokens.Load(id)
	if !ok {
		var opts []claimOpt
		if strings.HasPrefix(form, "expired") {
			opts = append(opts, expired())
		}
		if strings.HasSuffix(form, "-B") {
			opts = append(opts, forB())
		}
		tok, _ = poTokens.LoadOrStore(id, keys.SignCompact(keys.Get(poFixtures[signer][ai]), jose.SignatureAlgorithm(alg), kid, payload(opts...)))
	}
	configured := "st"
	if poHas(config, "hintks") {
		configured = "hint"
	}
	h := &hintDef{key: "signed-by-" + signer + "/" + alg + "/" + tkid + "/" + form, azp: clA, sub: subject, token: tok.(string)}
	if strings.HasSuffix(form, "-B") {
		h.azp = clB
	}
	switch {
	case signer != configured:
		h.verdict, h.family, h.badRule = hintInvalid, "invalid-hint", "hint-signed-outside-configured-key-set"
	case tkid == "nokid":
		h.verdict, h.family = hintOpen, "open-hint" // as in the main part: a hint without kid is Either
	case strings.HasPrefix(form, "expired"):
		h.verdict, h.family = hintVerifies, "expired-hint"
	default:
		h.verdict, h.family = hintVerifies, "valid-hint"
	}
	return h
}

func formOf(cs caseT) url.Values {
	form := url.Values{}
	if cs.hint.token != "" {
		form.Set("id_token_hint", cs.hint.token)
	}
	if cs.clientID != "" {
		form.Set("client_id", cs.clientID)
	}
	if cs.uri.val != "" {
		form.Set("post_logout_redirect_uri", cs.uri.val)
	}
	if cs.state != "" || cs.emptyState {
		form.Set("state", cs.state)
	}
	return form
}

func runProviderOptions(t *testing.T, c *engine.Check, full bool) {
	space := engine.Space{
		engine.D("options", poConfigs...),
		engine.D("signer", poSigners...),
		engine.D("alg", poAlgs...),
		engine.D("kid", "kid", "nokid"),
		engine.D("hint", poForms[:engine.Pick(c, 3, 4)]...),
		engine.D("client_id", "absent", "A", "B"),
		engine.D("uri", "regA", "absent", "regB-only", "unregistered", "shared"),
		engine.D("state", "simple", "absent"),
		engine.D("default", "relative", "absolute-query"),
		engine.D("storage", "TerminateSession", "TerminateSessionFromRequest"),
		engine.D("router", rig.Routers...),
		engine.D("method", "GET", "POST"),
	}
	var obl [3]atomic.Int64 // verifies / must reject / open
	e := engine.E1{
		Part:  "provider-options",
		Space: space,
		NewWorker: func(int) func(engine.Vec) engine.Result {
			rigs := map[string]*rig.Rig{}
			return func(v engine.Vec) engine.Result {
				g := func(n string) string { return space.Get(v, n) }
				key := g("options") + "|" + g("default") + "|" + g("storage")
				r := rigs[key]
				if r == nil {
					r = newRigFull(g("default"), "exact-only", g("storage"), nil, poOptions(g("options")), func(cfg *refstore.Config) {
						cfg.Published = poPubKeys("st") // ES256 "sig-1" = the rig's signing key, plus an RS256 key
					})
					rigs[key] = r
				}
				cs := caseT{hint: poHint(g("options"), g("signer"), g("alg"), g("kid"), g("hint")),
					clientID: valOf(clientIDs, g("client_id")), uri: uriOf(g("uri")), state: valOf(states, g("state")),
					def: valOf(defaults, g("default")), reg: regOf("exact-only"), storage: g("storage"), router: g("router"), method: g("method")}
				switch cs.hint.verdict {
				case hintVerifies:
					obl[0].Add(1)
				case hintInvalid:
					obl[1].Add(1)
				default:
					obl[2].Add(1)
				}
				res := judge(cs, execute(t, r, routerIdx(cs.router), cs.method, formOf(cs)))
				if res.Sig != "" {
					res.Detail = fmt.Sprintf("op.NewProvider options [%s]; hint signed by a key of the %q generation (st = storage key set, at = set of WithAccessTokenKeySet, hint = set of WithIDTokenHintKeySet, x = nobody's) | %s",
						g("options"), g("signer"), res.Detail)
				}
				return res
			}
		},
	}
	if full {
		e.K = len(space)
	} else {
		e.Groups = [][]string{
			{"options", "signer", "alg", "kid", "hint", "storage", "router", "method"},
			{"options", "signer", "client_id", "uri", "router"},
		}
		e.Ks = []int{1, 1}
	}
	c.RunE1(e)
	c.Extra("provider-options-obligations", map[string]int64{"hint-of-configured-set": obl[0].Load(), "must-reject(outside-configured-set)": obl[1].Load(), "open(no-kid)": obl[2].Load()})
}

// ---------------------------------------------------------------------------
// part storage-faults

type faultErr struct {
	key string
	mk  func() error // a fresh value per call: handlers may decorate *oidc.Error values
}

var faultErrs = []faultErr{
	{"opaque", func() error { return errors.New("storage: backend unavailable") }},
	{"oidc-server-error", func() error { return oidc.ErrServerError().WithDescription("backend unavailable") }},
	{"oidc-invalid-request", func() error { return oidc.ErrInvalidRequest().WithDescription("no such session") }},
	{"oidc-access-denied", func() error { return oidc.ErrAccessDenied() }},
	{"oidc-login-required", func() error { return oidc.ErrLoginRequired() }},
	{"oidc-wrapped", func() error { return fmt.Errorf("storage: %w", oidc.ErrServerError().WithDescription("backend unavailable")) }},
	{"context-canceled", func() error { return context.Canceled }},
	{"deadline-exceeded", func() error { return fmt.Errorf("storage: %w", context.DeadlineExceeded) }},
	// thorough
	{"oidc-interaction-required", func() error { return oidc.ErrInteractionRequired() }},
	{"oidc-invalid-client", func() error { return oidc.ErrInvalidClient() }},
	{"oidc-error-without-type", func() error { return &oidc.Error{Description: "no type"} }},
	{"joined", func() error { return errors.Join(errors.New("a"), oidc.ErrInvalidRequest()) }},
}

const quickFaultErrs = 8

func faultErrOf(key string) faultErr {
	for _, f := range faultErrs {
		if f.key == key {
			return f
		}
	}
	panic("c18: no fault error " + key)
}

// which storage calls a fault target covers
func faultCovers(target, method string) bool {
	switch target {
	case "terminate":
		return method == "TerminateSession" || method == "TerminateSessionFromRequest"
	case "none":
		return false
	}
	return target == method
}

func isTermination(c refstore.Call) bool {
	return c.Method == "TerminateSession" || c.Method == "TerminateSessionFromRequest"
}

func runStorageFaults(t *testing.T, c *engine.Check, full bool) {
	errKeys := make([]string, 0, len(faultErrs))
	for i, f := range faultErrs {
		if full || i < quickFaultErrs {
			errKeys = append(errKeys, f.key)
		}
	}
	space := engine.Space{
		engine.D("fault", "terminate", "GetClientByClientID", "KeySet", "none"),
		engine.D("error", errKeys...),
		engine.D("hint", "valid-azp-A", "absent", "expired", "wrong-key", "valid-azp-B", "no-azp", "azp-unknown-client"),
		engine.D("client_id", keysOf(clientIDs, quickClientIDs)...),
		engine.D("uri", "regA", "absent", "regA-with-query", "regB-only", "glob-hit-A", "unregistered"),
		engine.D("state", "simple", "absent"),
		engine.D("default", keysOf(defaults, quickDefaults)...),
		engine.D("registration", regKeys(quickRegs)...),
		engine.D("storage", "TerminateSession", "TerminateSessionFromRequest"),
		engine.D("router", rig.Routers...),
		engine.D("method", "GET", "POST"),
	}
	fi, ei := space.Idx("fault"), space.Idx("error")
	var fired [3]atomic.Int64 // executions in which the fault fired: terminate, client, key set
	var refusedAfterFailedTerminate atomic.Int64
	e := engine.E1{
		Part:  "storage-faults",
		Space: space,
		// without a fault the error kind means nothing
		Skip: func(v engine.Vec) bool { return space[fi].Vals[v[fi]] == "none" && v[ei] != 0 },
		NewWorker: func(int) func(engine.Vec) engine.Result {
			rigs := map[string]*rig.Rig{}
			return func(v engine.Vec) engine.Result {
				g := func(n string) string { return space.Get(v, n) }
				key := g("default") + "|" + g("registration") + "|" + g("storage")
				r := rigs[key]
				if r == nil {
					r = newRig(g("default"), g("registration"), g("storage"))
					rigs[key] = r
				}
				target, fe := g("fault"), faultErrOf(g("error"))
				cs := caseOf(g)
				failed := map[int]bool{} // journal indices of the calls that were made to fail
				var fault refstore.FaultFn
				if target != "none" {
					fault = func(idx int, method string) error { // called under the store's lock
						if faultCovers(target, method) {
							failed[idx] = true
							return fe.mk()
						}
						return nil
					}
				}
				o := executeFault(t, r, routerIdx(cs.router), cs.method, formOf(cs), rig.Host, nil, fault)
				// a failed call did nothing: the reference sees the journal without it
				var journal []refstore.Call
				failedTerm := 0
				for i, call := range o.journal {
					if failed[i] {
						if isTermination(call) {
							failedTerm++
						}
						continue
					}
					journal = append(journal, call)
				}
				whole := o.journal
				o.journal = journal
				cs.faulted = len(failed) > 0
				if cs.faulted {
					fired[fi2(target)].Add(1)
				}
				rulePfx := "fault-free:"
				if cs.faulted {
					rulePfx = "failed-" + target + ":"
				}
				detail := func(d string) string {
					return fmt.Sprintf("storage fault: every %s call fails with %s (%v); full journal %v | %s", target, fe.key, fe.mk(), whole, d)
				}
				if failedTerm > 0 && len(terminations(journal)) == 0 && o.panicked == "" && o.status < 400 {
					outcome := "status-other"
					if o.status >= 300 && o.hasLoc {
						outcome = "redirect"
					}
					return engine.Bad(rulePfx+"termination-failed", outcome, "C18/logout-signalled-although-termination-failed/"+cs.router+"/"+cs.storage,
						detail(fmt.Sprintf("the call that terminates the session failed, yet the request was answered as a completed logout: hint=%s client_id=%q post_logout_redirect_uri=%q state=%q %s %s → status=%d Location=%q",
							cs.hint.key, cs.clientID, cs.uri.val, cs.state, cs.method, cs.router, o.status, o.location)))
				}
				if failedTerm > 0 {
					refusedAfterFailedTerminate.Add(1)
				}
				res := judge(cs, o)
				res.Rule = rulePfx + res.Rule
				if res.Sig != "" {
					res.Detail = detail(res.Detail)
				}
				return res
			}
		},
	}
	if full {
		e.Groups = [][]string{
			{"fault", "error", "hint", "client_id", "uri", "storage", "router", "method"},
			{"fault", "error", "registration", "default", "state", "uri", "router"},
		}
		e.Ks = []int{1, 1}
	} else {
		e.Groups = [][]string{
			{"fault", "error", "hint", "storage", "router", "method"},
			{"fault", "error", "client_id", "uri", "router"},
		}
		e.Ks = []int{1, 1}
	}
	c.RunE1(e)
	c.Extra("storage-faults-fired", map[string]int64{"terminate": fired[0].Load(), "GetClientByClientID": fired[1].Load(), "KeySet": fired[2].Load(),
		"refused-after-failed-terminate": refusedAfterFailedTerminate.Load()})
}

func fi2(target string) int {
	switch target {
	case "terminate":
		return 0
	case "GetClientByClientID":
		return 1
	}
	return 2
}
