package c18

import (
	"crypto/x509"
	"encoding/base64"
	"encoding/json"
	"strings"
	"sync"

	jose "github.com/go-jose/go-jose/v4"

	"verif/harness/engine"
	"verif/harness/rig"
	"verif/harness/rig/keys"
)

// verdict of the reference about a hint
type hintVerdict int

const (
	hintAbsent   hintVerdict = iota
	hintVerifies             // signature by the provider's key + own issuer (expiry ignored)
	hintInvalid              // statement: must be rejected
	hintOpen                 // the statement does not decide (Either); if accepted it proves azp
)

type hintDef struct {
	key     string
	verdict hintVerdict
	family  string // low-cardinality label used in rule ids
	badRule string // for hintInvalid: the clause that demands rejection
	azp     string // authorized party the hint names ("" = none)
	sub     string
	token   string // filled by mintHints
	mint    func() string
}

// times relative to now = Epoch + nowOffset
func at(sec int64) int64 { return engine.Epoch.Add(nowOffset).Unix() + sec }

type claimOpt func(map[string]any)

func payload(opts ...claimOpt) []byte {
	p := map[string]any{
		"iss": rig.Issuer, "sub": subject, "aud": []any{clA}, "azp": clA,
		"iat": at(-60), "exp": at(3600), "auth_time": at(-120), "nonce": "n-1",
	}
	for _, o := range opts {
		o(p)
	}
	b, err := json.Marshal(p)
	if err != nil {
		panic(err)
	}
	return b
}

func set(k string, v any) claimOpt { return func(p map[string]any) { p[k] = v } }
func del(k string) claimOpt        { return func(p map[string]any) { delete(p, k) } }
func expired() claimOpt {
	return func(p map[string]any) { p["iat"] = at(-7200); p["exp"] = at(-3600); p["auth_time"] = at(-7300) }
}
func forB() claimOpt { return func(p map[string]any) { p["aud"] = []any{clB}; p["azp"] = clB } }

// the provider's key: rig.DefaultConfig publishes ES256 "sig-1" = rig.SignKeyFor(ES256,"sig-1") (fixture p256a)
func good(p []byte) string {
	return keys.SignCompact(keys.KeyForAlg(jose.ES256), jose.ES256, "sig-1", p)
}
func wrongKey(p []byte) string { return keys.SignCompact(keys.Get("p256c"), jose.ES256, "sig-1", p) }

func b64(b []byte) string { return base64.RawURLEncoding.EncodeToString(b) }

var hints = []hintDef{
	{key: "valid-azp-A", verdict: hintVerifies, family: "valid-hint", azp: clA, sub: subject, mint: func() string { return good(payload()) }},
	{key: "absent", verdict: hintAbsent, family: "no-hint"},
	{key: "expired", verdict: hintVerifies, family: "expired-hint", azp: clA, sub: subject, mint: func() string { return good(payload(expired())) }},
	{key: "iat-too-old", verdict: hintVerifies, family: "valid-hint", azp: clA, sub: subject,
		mint: func() string { return good(payload(set("iat", at(-5*365*86400)), set("auth_time", at(-5*365*86400)))) }},
	{key: "iat-in-future", verdict: hintOpen, family: "open-hint", azp: clA, sub: subject,
		mint: func() string { return good(payload(set("iat", at(3600)), set("exp", at(7200)))) }},
	{key: "wrong-key", verdict: hintInvalid, family: "invalid-hint", badRule: "hint-bad-signature", azp: clA, sub: subject,
		mint: func() string { return wrongKey(payload()) }},
	{key: "foreign-issuer", verdict: hintInvalid, family: "invalid-hint", badRule: "hint-foreign-issuer", azp: clA, sub: subject,
		mint: func() string { return good(payload(set("iss", "https://evil.example"))) }},
	{key: "valid-azp-B", verdict: hintVerifies, family: "valid-hint", azp: clB, sub: subject, mint: func() string { return good(payload(forB())) }},
	{key: "no-azp", verdict: hintVerifies, family: "no-azp-hint", azp: "", sub: subject, mint: func() string { return good(payload(del("azp"))) }},
	{key: "alg-none", verdict: hintInvalid, family: "invalid-hint", badRule: "hint-unsigned", azp: clA, sub: subject,
		mint: func() string { return b64([]byte(`{"alg":"none","typ":"JWT"}`)) + "." + b64(payload()) + "." }},
	{key: "garbage", verdict: hintInvalid, family: "invalid-hint", badRule: "hint-unparsable", mint: func() string { return "garbage" }},
	{key: "expired-wrong-key", verdict: hintInvalid, family: "invalid-hint", badRule: "hint-bad-signature", azp: clA, sub: subject,
		mint: func() string { return wrongKey(payload(expired())) }},
	{key: "expired-foreign-issuer", verdict: hintInvalid, family: "invalid-hint", badRule: "hint-foreign-issuer", azp: clA, sub: subject,
		mint: func() string { return good(payload(expired(), set("iss", "https://evil.example"))) }},
	{key: "azp-unknown-client", verdict: hintVerifies, family: "unknown-azp-hint", azp: clNone, sub: subject,
		mint: func() string { return good(payload(set("azp", clNone), set("aud", []any{clNone}))) }},
	// ---- thorough
	{key: "expired-azp-B", verdict: hintVerifies, family: "expired-hint", azp: clB, sub: subject, mint: func() string { return good(payload(expired(), forB())) }},
	{key: "multi-aud-azp-A", verdict: hintVerifies, family: "valid-hint", azp: clA, sub: subject,
		mint: func() string { return good(payload(set("aud", []any{clB, clA}))) }},
	{key: "just-expired", verdict: hintVerifies, family: "expired-hint", azp: clA, sub: subject,
		mint: func() string { return good(payload(set("exp", at(-1)))) }},
	{key: "issuer-trailing-slash", verdict: hintInvalid, family: "invalid-hint", badRule: "hint-foreign-issuer", azp: clA, sub: subject,
		mint: func() string { return good(payload(set("iss", rig.Issuer+"/"))) }},
	{key: "issuer-absent", verdict: hintInvalid, family: "invalid-hint", badRule: "hint-foreign-issuer", azp: clA, sub: subject,
		mint: func() string { return good(payload(del("iss"))) }},
	{key: "tampered-payload", verdict: hintInvalid, family: "invalid-hint", badRule: "hint-bad-signature", azp: clB, sub: subject,
		mint: func() string {
			parts := strings.Split(good(payload()), ".")
			return parts[0] + "." + b64(payload(forB())) + "." + parts[2]
		}},
	{key: "hs256-with-public-key", verdict: hintInvalid, family: "invalid-hint", badRule: "hint-bad-signature", azp: clA, sub: subject,
		mint: func() string {
			der, err := x509.MarshalPKIXPublicKey(keys.KeyForAlg(jose.ES256).Pub)
			if err != nil {
				panic(err)
			}
			s, err := jose.NewSigner(jose.SigningKey{Algorithm: jose.HS256, Key: &jose.JSONWebKey{Key: der, KeyID: "sig-1"}}, (&jose.SignerOptions{}).WithType("JWT"))
			if err != nil {
				panic(err)
			}
			j, err := s.Sign(payload())
			if err != nil {
				panic(err)
			}
			out, _ := j.CompactSerialize()
			return out
		}},
	{key: "rs256-other-key", verdict: hintInvalid, family: "invalid-hint", badRule: "hint-bad-signature", azp: clA, sub: subject,
		mint: func() string { return keys.SignCompact(keys.Get("rsa4"), jose.RS256, "sig-1", payload()) }},
	{key: "empty-signature", verdict: hintInvalid, family: "invalid-hint", badRule: "hint-unsigned", azp: clA, sub: subject,
		mint: func() string {
			parts := strings.Split(good(payload()), ".")
			return parts[0] + "." + parts[1] + "."
		}},
	{key: "foreign-kid", verdict: hintOpen, family: "open-hint", azp: clA, sub: subject,
		mint: func() string { return keys.SignCompact(keys.KeyForAlg(jose.ES256), jose.ES256, "other-kid", payload()) }},
	{key: "no-kid", verdict: hintOpen, family: "open-hint", azp: clA, sub: subject,
		mint: func() string { return keys.SignCompact(keys.KeyForAlg(jose.ES256), jose.ES256, "", payload()) }},
	{key: "three-dots-garbage", verdict: hintInvalid, family: "invalid-hint", badRule: "hint-unparsable", mint: func() string { return "a.b.c" }},
}

const quickHints = 14

func hintKeys(n int) []string {
	if n <= 0 || n > len(hints) {
		n = len(hints)
	}
	out := make([]string, n)
	for i := range out {
		out[i] = hints[i].key
	}
	return out
}

var mintOnce sync.Once

// hintOf returns the hint with its token; tokens are minted once per process (ECDSA
// signatures are randomised, but nothing observed depends on the signature bytes).
func hintOf(key string) *hintDef {
	mintOnce.Do(func() {
		for i := range hints {
			if hints[i].mint != nil {
				hints[i].token = hints[i].mint()
			}
		}
	})
	for i := range hints {
		if hints[i].key == key {
			return &hints[i]
		}
	}
	panic("c18: no hint " + key)
}
