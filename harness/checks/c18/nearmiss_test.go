package c18

// Part "uri-nearmiss": the near-miss family of post_logout_redirect_uri.
//
// For EVERY string registered as a post-logout URI (exactly or as a glob, for A or for B, in
// every registration of the part) the generators below derive the requested URIs that a
// sloppy comparison would take for it: prefix- / suffix-extended (with and without a
// separating '.', '/', ':', '?', '&', '#'), shortened, case-changed, containing the registered
// value, and the one-character variants at EVERY position (substitution, deletion,
// insertion). Registrations of the part add clients WITHOUT glob opt-in whose exactly
// registered URIs contain the metacharacters of a glob / path.Match dialect ('?' of a query
// string, '*', '[..]', '[a-c]', '[^x]', '\', an unclosed '['), and the generator "instance"
// produces the strings such an entry would match if it were (wrongly) read as a pattern.
// The oracle is the unchanged reference predicate: an exact registration is string equality,
// nothing else.

import (
	"net/url"
	"slices"
	"strings"
	"testing"

	"verif/harness/engine"
	"verif/harness/rig"
)

// exact registrations with metacharacters (all of them parse as URLs)
var (
	metaA = []string{
		"https://a.example/out",
		"https://a.example/q?k=v",       // '?' of an ordinary query string
		"https://*.a.example/bye",       // a would-be wildcard host registered for a client that never opted in
		"https://a.example/m/[ab]c",     // character class
		"https://a.example/r/[a-c]",     // range
		"https://a.example/n/[^x]y",     // negated class
		`https://a.example/e/x\*y`,      // escape
		"https://shared.example/out",
	}
	metaB = []string{"https://b.example/out", "https://shared.example/out", "https://b.example/w?y=*"}
	// an exact registration that is malformed when read as a pattern, in front of / behind the others
	metaABadFirst = append([]string{badGlob}, metaA...)
	metaABadLast  = append(append([]string{}, metaA...), badGlob)
	// exact registrations that do not survive url.Parse(...).String() (which the provider applies
	// when it appends a state): upper-case scheme / host, non-ASCII path, IDN host, empty fragment,
	// empty query, encoded reserved characters, a blank, a default port, dot segments
	unstableA = []string{
		"https://a.example/out",
		"HTTPS://A.Example/Out",
		"https://a.example/ä/ö",
		"https://ä.example/out",
		"https://a.example/f#",
		"https://a.example/e?",
		"https://a.example/a%2Fb/%7Ec",
		"https://a.example/sp ace",
		"https://a.example:443/p",
		"https://a.example/x/../y",
		"https://shared.example/out",
	}
)

// registrations of this part beyond the common table `regs`
var nmRegs = []regDef{
	{key: "meta-exact-no-globs", exA: metaA, exB: metaB},
	{key: "meta-exact-globs-on-file-not-opted-in", exA: metaA, exB: metaB, aGlobs: aGood, aOpt: false, bOpt: false},
	{key: "meta-exact-beside-opted-in-globs", exA: metaA, exB: metaB, aGlobs: aGood, aOpt: true, bOpt: true},
	{key: "meta-exact-malformed-first", exA: metaABadFirst, exB: metaB},
	{key: "exact-not-in-normal-form", exA: unstableA},
	// thorough
	{key: "meta-exact-malformed-last", exA: metaABadLast, exB: metaB},
	{key: "globs-on-file-not-opted-in", aGlobs: aGood, aOpt: false, bOpt: false},
}

const quickNmRegs = 5

func nmRegList(full bool) []regDef {
	out := append([]regDef{}, regs[:quickRegs]...)
	if full {
		out = append([]regDef{}, regs...)
		return append(out, nmRegs...)
	}
	return append(out, nmRegs[:quickNmRegs]...)
}

// ---------------------------------------------------------------------------
// generators

type nmGen struct {
	class string
	full  bool // thorough only
	f     func(u string) []string
}

func flipCase(b byte) (byte, bool) {
	switch {
	case b >= 'a' && b <= 'z':
		return b - 32, true
	case b >= 'A' && b <= 'Z':
		return b + 32, true
	}
	return b, false
}

// authority returns the index range of the host[:port] part of an absolute URI string.
func authority(u string) (int, int, bool) {
	i := strings.Index(u, "://")
	if i < 0 {
		return 0, 0, false
	}
	s := i + 3
	e := strings.IndexAny(u[s:], "/?#")
	if e < 0 {
		return s, len(u), true
	}
	return s, s + e, true
}

func substAt(u string, chars string) []string {
	var out []string
	for i := 0; i < len(u); i++ {
		for j := 0; j < len(chars); j++ {
			c := chars[j]
			if u[i] == c {
				if c != 'X' {
					continue
				}
				c = 'Y'
			}
			out = append(out, u[:i]+string(c)+u[i+1:])
		}
	}
	return out
}

var nmGens = []nmGen{
	{class: "registered-string", f: func(u string) []string { return []string{u} }},
	{class: "nm-prefix-extended", f: func(u string) []string {
		return []string{"x" + u, "https://evil.example/" + u, "https://evil.example/?next=" + u, "https://evil.example#" + u, "evil-" + u}
	}},
	{class: "nm-suffix-extended", f: func(u string) []string {
		return []string{u + "x", u + "/", u + ".", u + ":", u + "/x", u + ".evil.example", u + ":8443", u + "?", u + "?x=1", u + "&x=1", u + "#", u + "#f", u + "%2F", u + u}
	}},
	{class: "nm-suffix-extended", full: true, f: func(u string) []string {
		return []string{u + "%00", u + "/..", u + "/.", u + ";x", u + "@evil.example", u + "\\"}
	}},
	// the registered string with white space at either end (what a lenient parser trims away)
	{class: "nm-white-space-edged", f: func(u string) []string {
		return []string{u + " ", " " + u, " " + u + " ", u + "\t", "\t" + u, u + "\n", "\n" + u, u + "\r\n", "\r\n" + u, u + "\u00a0", u + "%20", "%20" + u, u + "+"}
	}},
	{class: "nm-white-space-edged", full: true, f: func(u string) []string {
		return []string{u + "\v", u + "\f", "\u0085" + u, u + "\u2003", u + "\x00", u + "%0A", u + "%09", u + "  "}
	}},
	{class: "nm-authority-extended", f: func(u string) []string {
		s, e, ok := authority(u)
		if !ok {
			return nil
		}
		return []string{
			u[:e] + ".evil.example" + u[e:], u[:e] + ":443" + u[e:], u[:e] + "." + u[e:], u[:e] + "@evil.example" + u[e:],
			u[:s] + "evil." + u[s:], u[:s] + "evil" + u[s:], u[:s] + "user@" + u[s:], u[:s] + "evil.example/" + u[s:],
			"http" + u[strings.Index(u, "://"):], "//" + u[s:], u[e:],
		}
	}},
	{class: "nm-shorter", f: func(u string) []string {
		n := len(u)
		return []string{u[:n-1], u[1:], u[:n-2], u[:n/2]}
	}},
	{class: "nm-case", f: func(u string) []string {
		out := []string{strings.ToUpper(u), strings.ToLower(u)}
		for i := len(u) - 1; i >= 0; i-- { // last letter
			if c, ok := flipCase(u[i]); ok {
				out = append(out, u[:i]+string(c)+u[i+1:])
				break
			}
		}
		if s, e, ok := authority(u); ok {
			out = append(out, strings.ToUpper(u[:s])+u[s:], u[:s]+strings.ToUpper(u[s:e])+u[e:], u[:e]+strings.ToUpper(u[e:]))
		}
		return out
	}},
	{class: "nm-case", full: true, f: func(u string) []string { // every single letter
		var out []string
		for i := 0; i < len(u); i++ {
			if c, ok := flipCase(u[i]); ok {
				out = append(out, u[:i]+string(c)+u[i+1:])
			}
		}
		return out
	}},
	{class: "nm-one-char-substituted", f: func(u string) []string { return substAt(u, "X") }},
	{class: "nm-one-char-substituted", full: true, f: func(u string) []string { return substAt(u, "/.?*") }},
	{class: "nm-one-char-deleted", f: func(u string) []string {
		var out []string
		for i := 0; i < len(u); i++ {
			out = append(out, u[:i]+u[i+1:])
		}
		return out
	}},
	// insertion at the ends and around the authority is in the quick tier through the
	// prefix / suffix / authority generators above
	{class: "nm-one-char-inserted", full: true, f: func(u string) []string {
		var out []string
		for i := 1; i <= len(u); i++ {
			out = append(out, u[:i]+"X"+u[i:], u[:i]+"/"+u[i:], u[:i]+"."+u[i:])
		}
		return out
	}},
	{class: "nm-adjacent-transposed", full: true, f: func(u string) []string {
		var out []string
		for i := 0; i+1 < len(u); i++ {
			if u[i] != u[i+1] {
				out = append(out, u[:i]+string(u[i+1])+string(u[i])+u[i+2:])
			}
		}
		return out
	}},
	{class: "nm-pattern-instance", f: patternInstances},
}

// patternInstances: what the registered string would match if it were read as a glob
// (any dialect: path.Match, filepath, doublestar): every metacharacter token is replaced by
// each of a few instances while the other tokens take their first instance. This is an
// INPUT generator, not part of the oracle; whether an instance is acceptable is decided by
// the reference (exact = equality; opted-in glob = refGlob).
func patternInstances(u string) []string {
	type tok struct{ opts []string }
	var toks []tok
	meta := false
	lit := func(s string) { toks = append(toks, tok{[]string{s}}) }
	for i := 0; i < len(u); {
		switch c := u[i]; c {
		case '*':
			toks = append(toks, tok{[]string{"x", "", "evil", "x/y", "/", "x.y", "*"}})
			meta = true
			i++
		case '?':
			toks = append(toks, tok{[]string{"X", "", "/", "XY", "&"}})
			meta = true
			i++
		case '\\':
			if i+1 < len(u) {
				toks = append(toks, tok{[]string{string(u[i+1]), "\\", ""}})
				i += 2
			} else {
				toks = append(toks, tok{[]string{"", "x"}})
				i++
			}
			meta = true
		case '[':
			j := strings.IndexByte(u[i:], ']')
			if j < 0 {
				lit("[")
				i++
				continue
			}
			body := u[i+1 : i+j]
			var o []string
			neg := strings.HasPrefix(body, "^") || strings.HasPrefix(body, "!")
			if neg {
				body = body[1:]
				o = append(o, "z", "q")
			}
			for k := 0; k < len(body); k++ {
				if k+2 < len(body) && body[k+1] == '-' {
					lo, hi := body[k], body[k+2]
					o = append(o, string(lo), string(lo+(hi-lo)/2), string(hi))
					k += 2
					continue
				}
				o = append(o, string(body[k]))
			}
			if !neg {
				o = append(o, "z")
			}
			o = append(o, "", body)
			toks = append(toks, tok{o})
			meta = true
			i += j + 1
		default:
			lit(string(c))
			i++
		}
	}
	if !meta {
		return nil
	}
	var out []string
	build := func(t, o int) string {
		var b strings.Builder
		for k, tk := range toks {
			if k == t {
				b.WriteString(tk.opts[o])
			} else {
				b.WriteString(tk.opts[0])
			}
		}
		return b.String()
	}
	for t, tk := range toks {
		if len(tk.opts) == 1 {
			continue
		}
		for o := range tk.opts {
			out = append(out, build(t, o))
		}
	}
	return out
}

// ---------------------------------------------------------------------------
// the alphabet of the part

type nmAlphabet struct {
	keys    []string          // requested URIs, fixed order; "(absent)" = no parameter
	class   map[string]string // generator class that first produced the value
	derived map[string]map[string]bool
}

const nmAbsent = "(absent)"

// sources of a registration: every string on file for A or B.
func (rd regDef) sources() []string {
	var out []string
	for _, l := range [][]string{rd.exactA(), rd.exactB(), rd.aGlobs, rd.globsB()} {
		for _, u := range l {
			if !slices.Contains(out, u) {
				out = append(out, u)
			}
		}
	}
	return out
}

func buildNmAlphabet(regList []regDef, full bool) *nmAlphabet {
	a := &nmAlphabet{class: map[string]string{}, derived: map[string]map[string]bool{}}
	add := func(reg, v, class string) {
		if v == "" {
			v = nmAbsent
			class = "absent"
		}
		if _, ok := a.class[v]; !ok {
			a.class[v] = class
			a.keys = append(a.keys, v)
		}
		a.derived[reg][v] = true
	}
	for _, rd := range regList {
		a.derived[rd.key] = map[string]bool{}
		add(rd.key, "https://a.example/out", "registered-string") // element 0: registered for A everywhere
		add(rd.key, "", "absent")
		for _, u := range rd.sources() {
			if _, err := url.Parse(u); err != nil {
				panic("c18: registered URI does not parse: " + u)
			}
			for _, g := range nmGens {
				if g.full && !full {
					continue
				}
				for _, v := range g.f(u) {
					add(rd.key, v, g.class)
				}
			}
		}
	}
	return a
}

// who asks: (hint, client_id) pairs of the common tables
type whoDef struct{ key, hint, clientID string }

var whos = []whoDef{
	{"hint-A", "valid-azp-A", "absent"},
	{"client_id-A", "absent", "A"},
	{"hint-A+client_id-A", "valid-azp-A", "A"},
	{"expired-hint-A", "expired", "absent"},
	{"hint-B", "valid-azp-B", "absent"},
	{"client_id-B", "absent", "B"},
	// thorough
	{"expired-hint-B", "expired-azp-B", "absent"},
	{"hint-B+client_id-B", "valid-azp-B", "B"},
	{"old-hint-A", "iat-too-old", "absent"},
	{"multi-aud-hint-A", "multi-aud-azp-A", "A"},
}

const quickWhos = 6

func whoOf(key string) whoDef {
	for _, w := range whos {
		if w.key == key {
			return w
		}
	}
	panic("c18: no who " + key)
}

func runNearMiss(t *testing.T, c *engine.Check, full bool) {
	regList := nmRegList(full)
	alpha := buildNmAlphabet(regList, full)
	// class labels (they appear in signatures) are taken from the thorough alphabet so that
	// they do not depend on the tier
	alpha.class = buildNmAlphabet(nmRegList(true), true).class
	var regKeys, whoKeys []string
	for _, rd := range regList {
		regKeys = append(regKeys, rd.key)
	}
	for i, w := range whos {
		if full || i < quickWhos {
			whoKeys = append(whoKeys, w.key)
		}
	}
	space := engine.Space{
		engine.D("who", whoKeys...),
		engine.D("uri", alpha.keys...),
		engine.D("registration", regKeys...),
		engine.D("router", rig.Routers...),
		engine.D("state", keysOf(states, quickStates)...),
		engine.D("method", "GET", "POST"),
		engine.D("storage", "TerminateSession", "TerminateSessionFromRequest"),
		engine.D("default", keysOf(defaults, quickDefaults)...),
	}
	c.Extra("uri-nearmiss-alphabet", map[string]any{"requested_uris": len(alpha.keys), "registrations": regKeys, "who": whoKeys})
	ui, ri := space.Idx("uri"), space.Idx("registration")
	e := engine.E1{
		Part:   "uri-nearmiss",
		Space:  space,
		// every (who, uri, registration, router) with the other dimensions at their defaults,
		// and every (uri, registration) with every single deviation of all other dimensions
		Groups: [][]string{{"who", "uri", "registration", "router"}, {"uri", "registration"}},
		Ks:     []int{0, 1},
		NewWorker: func(int) func(engine.Vec) engine.Result {
			rigs := map[string]*rig.Rig{}
			return func(v engine.Vec) engine.Result {
				g := func(n string) string { return space.Get(v, n) }
				key := g("default") + "|" + g("registration") + "|" + g("storage")
				r := rigs[key]
				if r == nil {
					r = newRig(g("default"), g("registration"), g("storage"))
					rigs[key] = r
				}
				w := whoOf(g("who"))
				uv := g("uri")
				ud := uriDef{key: uv, val: uv, class: alpha.class[uv]}
				if uv == nmAbsent {
					ud.val = ""
				}
				cs := caseT{hint: hintOf(w.hint), clientID: valOf(clientIDs, w.clientID), uri: ud,
					state: valOf(states, g("state")), def: valOf(defaults, g("default")), reg: regOf(g("registration")),
					storage: g("storage"), router: g("router"), method: g("method")}
				form := url.Values{}
				if cs.hint.token != "" {
					form.Set("id_token_hint", cs.hint.token)
				}
				if cs.clientID != "" {
					form.Set("client_id", cs.clientID)
				}
				if cs.uri.val != "" {
					form.Set("post_logout_redirect_uri", cs.uri.val)
				}
				if cs.state != "" {
					form.Set("state", cs.state)
				}
				return judge(cs, executeAt(t, r, routerIdx(cs.router), cs.method, form, rig.Host, nil))
			}
		},
	}
	if !full {
		// quick: a registration is crossed with the near misses of ITS OWN strings (plus the
		// defaults); thorough crosses every registration with the near misses of all of them.
		e.Skip = func(v engine.Vec) bool {
			return !alpha.derived[space[ri].Vals[v[ri]]][space[ui].Vals[v[ui]]]
		}
	}
	c.RunE1(e)
}
