package c18

import (
	"fmt"
	"net/url"
	"reflect"
	"slices"
	"strings"

	"verif/harness/engine"
	"verif/harness/rig/refstore"
)

// ---------------------------------------------------------------------------
// reference: registration

// refGlob is the reference glob matcher: '*' = any (possibly empty) run of non-'/'
// characters, '?' = exactly one non-'/' character, anything else literal. A pattern with
// an unclosed '[' is malformed and registers nothing. No other meta syntax is in the alphabet.
func refGlob(p, s string) bool {
	if strings.ContainsAny(p, "[]{}\\") {
		if strings.Contains(p, "[") && !strings.Contains(p, "]") {
			return false // malformed
		}
		panic("c18: glob syntax outside the reference alphabet: " + p)
	}
	return gm(p, s)
}

func gm(p, s string) bool {
	if p == "" {
		return s == ""
	}
	switch p[0] {
	case '*':
		for i := 0; ; i++ {
			if gm(p[1:], s[i:]) {
				return true
			}
			if i == len(s) || s[i] == '/' {
				return false
			}
		}
	case '?':
		return s != "" && s[0] != '/' && gm(p[1:], s[1:])
	}
	return s != "" && s[0] == p[0] && gm(p[1:], s[1:])
}

type registration struct {
	exact    []string
	globs    []string
	optedIn  bool
	known    bool
	badGlobs bool // an opted-in malformed glob is on file
}

func registrationOf(client string, rd regDef) registration {
	switch client {
	case clA:
		return registration{exact: rd.exactA(), globs: rd.aGlobs, optedIn: rd.aOpt, known: true, badGlobs: rd.aOpt && rd.aHasBadGlobs}
	case clB:
		return registration{exact: rd.exactB(), globs: rd.globsB(), optedIn: rd.bOpt, known: true}
	}
	for _, x := range rd.extra {
		if x.id == client { // byte for byte: a client id is an opaque string
			return registration{exact: x.exact, known: true}
		}
	}
	return registration{}
}

// registered: "registered (exactly, or via an opted-in glob)".
func (r registration) registered(uri string) (yes, exactly bool) {
	if !r.known || uri == "" {
		return false, false
	}
	if slices.Contains(r.exact, uri) {
		return true, true
	}
	if r.optedIn {
		for _, g := range r.globs {
			if refGlob(g, uri) {
				return true, false
			}
		}
	}
	return false, false
}

// ---------------------------------------------------------------------------
// the case and what the statement expects of it

type caseT struct {
	hint     *hintDef
	clientID string
	uri      uriDef
	state    string
	def      string
	reg      regDef
	storage  string
	router   string
	method   string
	// a state parameter was supplied and is the empty string (state == ""): the statement
	// speaks of "a supplied state"; whether an empty one is appended (as "state=") or left out
	// is open
	emptyState bool
	// a storage call of this execution was made to fail (part storage-faults): refusing is then
	// always permitted, also where the fault-free baseline demands the redirect
	faulted bool
}

func caseOf(g func(string) string) caseT {
	return caseT{
		hint: hintOf(g("hint")), clientID: valOf(clientIDs, g("client_id")), uri: uriOf(g("uri")),
		state: valOf(states, g("state")), def: valOf(defaults, g("default")), reg: regOf(g("registration")),
		storage: g("storage"), router: g("router"), method: g("method"),
	}
}

type expectation struct {
	rule          string
	mustReject    bool   // the statement demands rejection
	rejectSig     string // signature stem when a must-reject case is accepted
	mustRequested bool   // the statement demands the redirect to the requested URI (baseline)
	mayRequested  bool   // a redirect to the requested URI is permitted
	user          string // subject whose session may be terminated
	client        string // client whose session may be terminated
	checkClient   bool
}

func expect(cs caseT) expectation {
	e := expectFaultFree(cs)
	if cs.faulted {
		e.mustRequested = false
	}
	return e
}

func expectFaultFree(cs caseT) expectation {
	h := cs.hint
	e := expectation{user: h.sub}
	fam := h.family
	if h.verdict == hintInvalid {
		e.rule, e.mustReject, e.rejectSig = h.badRule, true, "invalid-hint-accepted"
		return e
	}
	proven := ""
	if h.verdict == hintAbsent {
		proven = cs.clientID // "without a hint, by client_id"
	} else {
		switch {
		case h.azp == "":
			// a hint that names no authorized party proves no client
			e.rule = fam + ":no-proven-client"
			if cs.clientID != "" {
				e.rule = fam + ":client_id-beside-hint-without-azp"
			}
			return e // default or reject; client of the terminated session left open
		case cs.clientID != "" && cs.clientID != h.azp:
			e.rule, e.mustReject, e.rejectSig = fam+":client_id-contradicts-azp", true, "contradicting-client-id-accepted"
			return e
		}
		proven = h.azp
	}
	e.client, e.checkClient = proven, true
	reg := registrationOf(proven, cs.reg)
	switch {
	case proven == "":
		e.rule = fam + ":no-proven-client"
	case !reg.known:
		e.rule, e.checkClient = fam+":proven-client-unknown", false
	case cs.uri.val == "":
		e.rule = fam + ":no-uri-requested"
	default:
		yes, exactly := reg.registered(cs.uri.val)
		switch {
		case yes && !isURL(cs.uri.val):
			// registered (through a glob, whose '*' also covers control characters), but the
			// string is not a URL a Location header could carry: the redirect is allowed, not demanded
			e.rule, e.mayRequested = fam+":registered-but-not-a-url", true
		case yes && (exactly || !reg.badGlobs) && h.verdict != hintOpen:
			e.rule, e.mustRequested, e.mayRequested = fam+":registered-for-proven-client", true, true
		case yes && h.verdict == hintOpen:
			e.rule, e.mayRequested = fam+":registered-for-proven-client", true
		case yes:
			// registered through a well-formed glob, but the client also has a malformed glob on
			// file: the statement allows the redirect and does not forbid refusing
			e.rule, e.mayRequested = fam+":registered-beside-malformed-glob", true
		case reg.badGlobs:
			e.rule = fam + ":not-registered(malformed-glob-on-file)"
		default:
			e.rule = fam + ":not-registered-for-proven-client"
		}
	}
	return e
}

// isURL: net/url parses it (it refuses control characters, among others).
func isURL(s string) bool {
	_, err := url.Parse(s)
	return err == nil
}

// ---------------------------------------------------------------------------
// observation → verdict

// sameBase: same target apart from the query.
func sameBase(a, b *url.URL) bool {
	return strings.EqualFold(a.Scheme, b.Scheme) && a.Host == b.Host && a.User.String() == b.User.String() &&
		a.Path == b.Path && a.Opaque == b.Opaque && a.Fragment == b.Fragment
}

func normQ(q url.Values) url.Values {
	if len(q) == 0 {
		return url.Values{}
	}
	return q
}

func terminations(j []refstore.Call) []refstore.Call {
	var out []refstore.Call
	for _, c := range j {
		if c.Method == "TerminateSession" || c.Method == "TerminateSessionFromRequest" {
			out = append(out, c)
		}
	}
	return out
}

func judge(cs caseT, o observed) engine.Result {
	e := expect(cs)
	R := cs.router
	term := terminations(o.journal)
	desc := func() string {
		return fmt.Sprintf("hint=%s client_id=%q post_logout_redirect_uri=%q state=%q default=%q registration=%s storage=%s %s %s → status=%d Location=%q terminations=%v",
			cs.hint.key, cs.clientID, cs.uri.val, cs.state, cs.def, cs.reg.key, cs.storage, cs.method, R, o.status, o.location, term)
	}
	switch {
	case o.panicked != "":
		// C09's business; no redirect happened: satisfies "must refuse", not "must serve"
		if e.mustRequested {
			return engine.Bad(e.rule, "panic", "C18/registered-uri-refused/"+R+"/"+cs.hint.family, "panic instead of the redirect to the registered URI: "+o.panicked+" | "+desc())
		}
		return engine.OK(e.rule, "panic")

	case o.status >= 400:
		outcome := "rejected-4xx"
		if o.status >= 500 {
			outcome = "rejected-5xx"
		}
		if e.mustRequested {
			return engine.Bad(e.rule, outcome, "C18/registered-uri-refused/"+R+"/"+cs.hint.family,
				"the requested URI is registered for the proven client but the request was refused | "+desc())
		}
		if len(term) != 0 {
			return engine.Bad(e.rule, outcome, "C18/session-terminated-on-rejected-request/"+R+"/"+cs.hint.family,
				"the request was rejected but a session was terminated | "+desc())
		}
		return engine.OK(e.rule, outcome)

	case o.status >= 300 && o.hasLoc:
		// handled below

	default:
		return engine.Bad(e.rule, "status-other", "C18/unexpected-status/"+R, "neither a redirect nor an error | "+desc())
	}

	// ---- accepted: a 3xx with a Location
	loc, err := url.Parse(o.location)
	if err != nil && o.location == cs.uri.val && e.mayRequested && !e.mustReject && cs.state == "" {
		// the requested string, registered for the proven client, was handed back byte for byte;
		// it is not a URL (control characters), so there is no query to look at
		if len(term) != 1 {
			return engine.Bad(e.rule, "redirect-requested-raw", "C18/wrong-session-terminated/"+R+"/"+cs.storage,
				fmt.Sprintf("expected exactly one session termination, saw %d | %s", len(term), desc()))
		}
		return engine.OK(e.rule, "redirect-requested-raw")
	}
	if err != nil {
		return engine.Bad(e.rule, "redirect-unparsable", "C18/redirect-to-unexpected-target/"+R+"/unparsable-location", err.Error()+" | "+desc())
	}
	var target *url.URL
	outcome := "redirect-other"
	if cs.uri.val != "" {
		if ru, err := url.Parse(cs.uri.val); err == nil && sameBase(loc, ru) {
			target, outcome = ru, "redirect-requested"
		}
	}
	if target == nil {
		du, err := url.Parse(cs.def)
		if err != nil {
			panic(err)
		}
		switch {
		case cs.def == "":
			// no default configured: net/http turns "" into the directory of the request path
			if loc.Scheme == "" && loc.Host == "" && loc.Opaque == "" && (loc.Path == "/" || loc.Path == "") && loc.Fragment == "" {
				target, outcome = du, "redirect-default"
			}
		case sameBase(loc, du):
			target, outcome = du, "redirect-default"
		}
	}
	if e.mustReject {
		return engine.Bad(e.rule, outcome, "C18/"+e.rejectSig+"/"+R+"/"+strings.TrimPrefix(e.rule, cs.hint.family+":"),
			"the statement demands rejection but the request was served | "+desc())
	}
	switch outcome {
	case "redirect-other":
		return engine.Bad(e.rule, outcome, "C18/redirect-to-unexpected-target/"+R+"/"+cs.uri.class,
			"the Location is neither the requested nor the default logout URI | "+desc())
	case "redirect-requested":
		if !e.mayRequested {
			// input class: how the URI misses the registration, or - when the fault is in
			// determining the proven client - which clause left no proven client
			class := cs.uri.class
			if short := strings.TrimPrefix(e.rule, cs.hint.family+":"); !strings.HasPrefix(short, "not-registered") {
				class = short
			}
			return engine.Bad(e.rule, outcome, "C18/redirect-to-unregistered-uri/"+R+"/"+class,
				"redirected to a requested URI that is not registered for the proven client | "+desc())
		}
	case "redirect-default":
		if e.mustRequested {
			return engine.Bad(e.rule, outcome, "C18/registered-uri-refused/"+R+"/"+cs.hint.family,
				"the requested URI is registered for the proven client but the default URI was used | "+desc())
		}
	}
	// state appended unchanged, other query members of the target preserved
	wantQ := normQ(target.Query())
	if cs.state != "" {
		wantQ.Add("state", cs.state)
	}
	gotQ := normQ(loc.Query())
	if cs.emptyState && len(gotQ["state"]) == len(wantQ["state"])+1 && gotQ["state"][len(gotQ["state"])-1] == "" {
		wantQ.Add("state", "") // the empty state was appended as such: unchanged
	}
	if !reflect.DeepEqual(gotQ, wantQ) {
		return engine.Bad(e.rule, outcome, "C18/state-or-query-mangled/"+R+"/"+outcome,
			fmt.Sprintf("Location query %v, expected %v | %s", gotQ, wantQ, desc()))
	}
	// the session terminated is that of the hint's subject and the proven client
	if len(term) != 1 {
		return engine.Bad(e.rule, outcome, "C18/wrong-session-terminated/"+R+"/"+cs.storage,
			fmt.Sprintf("expected exactly one session termination, saw %d | %s", len(term), desc()))
	}
	if a := term[0].Args; len(a) < 2 || a[0] != e.user || (e.checkClient && a[1] != e.client) {
		return engine.Bad(e.rule, outcome, "C18/wrong-session-terminated/"+R+"/"+cs.storage,
			fmt.Sprintf("terminated %v, expected user %q client %q | %s", term[0], e.user, e.client, desc()))
	}
	return engine.OK(e.rule, outcome)
}
