// C18 — logout redirects only to post-logout URIs registered for the proven client.
//
// Engine E1, FULL product (no deviation bound): id_token_hint kind × client_id ×
// post_logout_redirect_uri × state × provider default logout URI × client registration ×
// storage variant × router × HTTP method. Every vector is one real HTTP request to
// /end_session of a real op.Provider (chi router) or RegisterLegacyServer(NewLegacyServer)
// over refstore, served inside a synctest bubble (so "expired" is exact), and judged by
// the reference logout predicate in oracle_test.go, which is written from the property
// statement (own glob matcher, own notion of "proven client", own URL comparison).
package c18

import (
	"net/http"
	"net/url"
	"os"
	"slices"
	"strings"
	"testing"
	"time"

	"github.com/zitadel/oidc/v3/pkg/op"

	"verif/harness/engine"
	"verif/harness/rig"
	"verif/harness/rig/refstore"
)

func TestMain(m *testing.M) { engine.Main(m) }

// nowOffset positions the fake clock of every execution: now = Epoch + 240h.
const nowOffset = 240 * time.Hour

// ---------------------------------------------------------------------------
// alphabet: short keys in the Space, concrete values in these tables.
// The first `quick` entries of every table form the quick tier; thorough (and replay)
// use the whole table.

type kv struct{ key, val string }

func keysOf(t []kv, n int) []string {
	if n <= 0 || n > len(t) {
		n = len(t)
	}
	out := make([]string, n)
	for i := range out {
		out[i] = t[i].key
	}
	return out
}

func valOf(t []kv, key string) string {
	for _, e := range t {
		if e.key == key {
			return e.val
		}
	}
	panic("c18: no table entry " + key)
}

const (
	clA     = "ca"
	clB     = "cb"
	clNone  = "nobody" // not registered
	subject = "u1"

	badGlob = "https://a.example/b/[x" // malformed: unclosed character class
)

var clientIDs = []kv{
	{"absent", ""}, {"A", clA}, {"B", clB}, {"unknown", clNone},
	// thorough
	{"A-upper", "CA"},
}

const quickClientIDs = 4

// requested post_logout_redirect_uri
type uriDef struct {
	key, val, class string
}

var uris = []uriDef{
	{"regA", "https://a.example/out", "registered-for-A"},
	{"absent", "", "absent"},
	{"regA-with-query", "https://a.example/q?k=v", "registered-for-A"},
	{"shared", "https://shared.example/out", "registered-for-A-and-B"},
	{"regB-only", "https://b.example/out", "registered-for-B-only"},
	{"near-slash", "https://a.example/out/", "near-miss"},
	{"near-case", "https://a.example/OUT", "near-miss"},
	{"near-extra-query", "https://a.example/out?x=1", "near-miss"},
	{"near-prefix", "https://a.example/outer", "near-miss"},
	{"glob-hit-A", "https://a.example/g/x", "glob"},
	{"glob-miss-slash", "https://a.example/g/x/y", "glob"},
	{"glob-hit-B", "https://b.example/g/x", "glob"},
	{"malformed-glob-literal", badGlob, "malformed-glob"},
	{"unregistered", "https://evil.example/", "unregistered"},
	// thorough
	{"near-host-case", "https://A.example/out", "near-miss"},
	{"near-scheme-case", "HTTPS://a.example/out", "near-miss"},
	{"near-fragment", "https://a.example/out#f", "near-miss"},
	{"near-userinfo", "https://user@a.example/out", "near-miss"},
	{"near-host-suffix", "https://a.example.evil.example/out", "near-miss"},
	{"near-encoded", "https://a.example/%6Fut", "near-miss"},
	{"near-query-more", "https://a.example/q?k=v&z=1", "near-miss"},
	{"near-query-dropped", "https://a.example/q", "near-miss"},
	{"near-port", "https://a.example:443/out", "near-miss"},
	{"glob-hit-empty", "https://a.example/g/", "glob"},
	{"glob-star-literal", "https://a.example/g/*", "glob"},
	{"glob-double-slash", "https://a.example/g//x", "glob"},
	{"glob-question-hit", "https://a.example/h/1x", "glob"},
	{"glob-question-miss", "https://a.example/h/12x", "glob"},
	{"glob-parent", "https://a.example/g", "glob"},
	{"relative", "/out", "unregistered"},
	{"scheme-relative", "//a.example/out", "unregistered"},
	{"javascript", "javascript:alert(1)", "unregistered"},
}

const quickURIs = 14

func uriKeys(n int) []string {
	if n <= 0 || n > len(uris) {
		n = len(uris)
	}
	out := make([]string, n)
	for i := range out {
		out[i] = uris[i].key
	}
	return out
}

func uriOf(key string) uriDef {
	for _, u := range uris {
		if u.key == key {
			return u
		}
	}
	panic("c18: no uri " + key)
}

var states = []kv{
	{"absent", ""}, {"simple", "s"}, {"special", "a b&c=d#"},
	// thorough
	{"percent", "%41%2B+x%"}, {"unicode", "ä✓/?=;"}, {"amp-state", "x&state=y"}, {"long", strings.Repeat("x", 1500)},
}

const quickStates = 3

var defaults = []kv{
	{"relative", "/logged-out"}, {"absolute-query", "https://op.example/out?x=1"}, {"empty", ""},
	// thorough
	{"absolute-fragment", "https://op.example/out?x=1#f"}, {"preset-state", "https://op.example/out?state=preset"},
}

const quickDefaults = 3

// client registrations
type regDef struct {
	key          string
	exA, exB     []string // exact registrations of A / B (nil = the common lists aExact / bExact)
	aGlobs       []string
	aOpt, bOpt   bool
	aHasBadGlobs bool
	// further registered clients (part "identifiers": clients whose ids are near misses of A's id)
	extra []extraClient
}

type extraClient struct {
	id    string
	exact []string
}

func (rd regDef) exactA() []string {
	if rd.exA != nil {
		return rd.exA
	}
	return aExact
}

func (rd regDef) exactB() []string {
	if rd.exB != nil {
		return rd.exB
	}
	return bExact
}

// globsB: B has its globs on file whenever the registration has globs at all; they count
// only when bOpt.
func (rd regDef) globsB() []string {
	if rd.aGlobs != nil {
		return bGlobs
	}
	return nil
}

var (
	aExact = []string{"https://a.example/out", "https://a.example/q?k=v", "https://shared.example/out"}
	bExact = []string{"https://b.example/out", "https://shared.example/out"}
	aGood  = []string{"https://a.example/g/*", "https://a.example/h/?x"}
	bGlobs = []string{"https://b.example/g/*"}
)

var regs = []regDef{
	{key: "exact-only"},
	{key: "globs", aGlobs: aGood, aOpt: true, bOpt: true},
	{key: "malformed-glob-first", aGlobs: append([]string{badGlob}, aGood...), aOpt: true, bOpt: true, aHasBadGlobs: true},
	// thorough
	{key: "malformed-glob-last", aGlobs: append(append([]string{}, aGood...), badGlob), aOpt: true, bOpt: true, aHasBadGlobs: true},
	{key: "globs-A-only", aGlobs: aGood, aOpt: true, bOpt: false},
}

const quickRegs = 3

func regKeys(n int) []string {
	if n <= 0 || n > len(regs) {
		n = len(regs)
	}
	out := make([]string, n)
	for i := range out {
		out[i] = regs[i].key
	}
	return out
}

func regOf(key string) regDef {
	for _, r := range regs {
		if r.key == key {
			return r
		}
	}
	for _, r := range nmRegs {
		if r.key == key {
			return r
		}
	}
	for _, r := range idRegs() {
		if r.key == key {
			return r
		}
	}
	panic("c18: no registration " + key)
}

func buildSpace(full bool) engine.Space {
	n := func(q int) int {
		if full {
			return 0
		}
		return q
	}
	return engine.Space{
		engine.D("hint", hintKeys(n(quickHints))...),
		engine.D("client_id", keysOf(clientIDs, n(quickClientIDs))...),
		engine.D("uri", uriKeys(n(quickURIs))...),
		engine.D("state", keysOf(states, n(quickStates))...),
		engine.D("default", keysOf(defaults, n(quickDefaults))...),
		engine.D("registration", regKeys(n(quickRegs))...),
		engine.D("storage", "TerminateSession", "TerminateSessionFromRequest"),
		engine.D("router", rig.Routers...),
		engine.D("method", "GET", "POST"),
	}
}

// ---------------------------------------------------------------------------
// rigs: one real provider (both routers) per (default URI, registration, storage), per worker

func newRig(def, reg, storage string) *rig.Rig { return newRigIss(def, reg, storage, nil) }

// newRigIss: issuerFn == nil = the rig's static issuer.
func newRigIss(def, reg, storage string, issuerFn func(bool) (op.IssuerFromRequest, error)) *rig.Rig {
	return newRigFull(def, reg, storage, issuerFn, nil, nil)
}

// newRigFull: options = the op.Option list handed to op.NewProvider (in that order); edit may
// change the storage configuration (e.g. publish further keys) before the provider is built.
func newRigFull(def, reg, storage string, issuerFn func(bool) (op.IssuerFromRequest, error), options []op.Option, edit func(*refstore.Config)) *rig.Rig {
	cfg := rig.DefaultConfig() // users u1,u2; ES256 signing key "sig-1" (fixture p256a)
	rd := regOf(reg)
	base := cfg.Clients["web"]
	mk := func(id string, exact, globs []string, opt bool) *refstore.Client {
		c := *base
		c.ID = id
		c.Secret = "secret-" + id
		c.PostLogout = append([]string{}, exact...)
		c.PostLogoutGlobs = append([]string{}, globs...)
		c.RedirectGlobs = nil
		c.UseGlobs = opt
		return &c
	}
	cfg.Clients = map[string]*refstore.Client{
		clA: mk(clA, rd.exactA(), rd.aGlobs, rd.aOpt),
		clB: mk(clB, rd.exactB(), rd.globsB(), rd.bOpt),
	}
	for _, x := range rd.extra {
		if _, dup := cfg.Clients[x.id]; dup {
			panic("c18: client registered twice: " + x.id)
		}
		cfg.Clients[x.id] = mk(x.id, x.exact, nil, false)
	}
	opc := rig.DefaultOPConfig()
	opc.DefaultLogoutRedirectURI = valOf(defaults, def)
	caps := refstore.CapAll
	if storage == "TerminateSession" {
		caps &^= refstore.CapTS
	}
	if edit != nil {
		edit(cfg)
	}
	return rig.MustNew(rig.Opts{Cfg: cfg, OP: opc, Caps: &caps, IssuerFn: issuerFn, Options: options})
}

type observed struct {
	status   int
	location string
	hasLoc   bool
	panicked string
	journal  []refstore.Call
}

func execute(t *testing.T, r *rig.Rig, router int, method string, form url.Values) observed {
	return executeAt(t, r, router, method, form, rig.Host, nil)
}

// executeAt: the request is addressed to the virtual host `host` (URL authority and Host
// header) and carries the extra headers hdr.
func executeAt(t *testing.T, r *rig.Rig, router int, method string, form url.Values, host string, hdr map[string]string) observed {
	return executeFault(t, r, router, method, form, host, hdr, nil)
}

// executeFault: fault (may be nil) is the storage fault plan of this one execution.
func executeFault(t *testing.T, r *rig.Rig, router int, method string, form url.Values, host string, hdr map[string]string, fault refstore.FaultFn) observed {
	var o observed
	r.Core.Reset(refstore.NewState())
	r.Core.Fault = fault
	pan := engine.Bubble(t, nowOffset, func() {
		var req *http.Request
		if len(form) == 0 {
			req = rig.Req(method, "/end_session", nil, nil)
			if method == "POST" {
				req.Header.Set("Content-Type", "application/x-www-form-urlencoded")
			}
		} else {
			req = rig.Req(method, "/end_session", form, nil)
		}
		if host != rig.Host {
			req.Host = host
			req.URL.Host = host
		}
		for k, v := range hdr {
			req.Header.Set(k, v)
		}
		resp := r.Do(router, req)
		o.status = resp.Status
		o.panicked = resp.Panic
		if l, ok := resp.Header["Location"]; ok && len(l) > 0 {
			o.location, o.hasLoc = l[0], true
		}
	})
	if pan != "" && o.panicked == "" {
		o.panicked = pan
	}
	o.journal = r.Core.JournalCopy()
	return o
}

func routerIdx(name string) int {
	for i, n := range rig.Routers {
		if n == name {
			return i
		}
	}
	panic("router " + name)
}

func TestCheck(t *testing.T) {
	c := engine.Start(t, "C18")
	full := c.Thorough() || c.ReplayFile != ""
	space := buildSpace(full)
	c.SetRule("E1 full product (every combination, no deviation bound) of hint kind x client_id x post_logout_redirect_uri x state x default logout URI x client registration x storage variant x router x method; each vector = one real /end_session request in a synctest bubble, judged by the reference logout predicate; distinct = (oracle rule, observed outcome class)")
	c.Assume("refstore is a correct op.Storage (trusted base); its journal is the observation of TerminateSession / TerminateSessionFromRequest",
		"glob semantics of the reference: '*' = any run of non-'/' characters, '?' = one non-'/' character, everything else literal; a malformed glob registers nothing. Only such globs are in the alphabet (path.Match vs doublestar differences, e.g. '**', are outside the statement)",
		"rejection = a response with status >= 400 and no session terminated (the statement says 'rejects', the status code is left open: the provider answers 400 for most and server_error for an unknown client / malformed glob)",
		"a hint whose only fault is an iat in the future, a foreign kid or a missing kid is judged Either (the statement only fixes bad signature, foreign issuer and expiry)",
		"a hint without azp proves no client: redirecting to the requested URI is then never allowed; together with a client_id the request may be refused or served with the default URI",
		"no post_logout_redirect_uri requested: default redirect or rejection are both accepted (the statement only speaks about requested URIs)")
	// C18_PARTS (development aid): comma-separated subset of the parts to run; default all.
	// The two small parts run first so that a deadline on a loaded machine cuts the big product.
	want := func(part string) bool {
		sel := os.Getenv("C18_PARTS")
		return sel == "" || slices.Contains(strings.Split(sel, ","), part)
	}
	if want("hosts") {
		runHosts(t, c, full)
	}
	if want("uri-nearmiss") {
		runNearMiss(t, c, full)
	}
	if want("identifiers") {
		runIdentifiers(t, c, full)
	}
	if want("provider-options") {
		runProviderOptions(t, c, full)
	}
	if want("storage-faults") {
		runStorageFaults(t, c, full)
	}
	if want("end_session") {
		runMain(t, c, space)
	}
	c.Finish()
}

func runMain(t *testing.T, c *engine.Check, space engine.Space) {
	c.RunE1(engine.E1{
		Part:  "end_session",
		Space: space,
		K:     len(space), // with Groups == nil: the full product
		NewWorker: func(int) func(engine.Vec) engine.Result {
			rigs := map[string]*rig.Rig{}
			return func(v engine.Vec) engine.Result {
				g := func(n string) string { return space.Get(v, n) }
				key := g("default") + "|" + g("registration") + "|" + g("storage")
				r := rigs[key]
				if r == nil {
					r = newRig(g("default"), g("registration"), g("storage"))
					rigs[key] = r
				}
				cs := caseOf(g)
				form := url.Values{}
				if cs.hint.token != "" {
					form.Set("id_token_hint", cs.hint.token)
				}
				if cs.clientID != "" {
					form.Set("client_id", cs.clientID)
				}
				if cs.uri.val != "" {
					form.Set("post_logout_redirect_uri", cs.uri.val)
				}
				if cs.state != "" {
					form.Set("state", cs.state)
				}
				o := execute(t, r, routerIdx(cs.router), cs.method, form)
				return judge(cs, o)
			}
		},
	})
}
