package c14

import (
	"context"
	"fmt"
	"strings"
	"testing"
	"time"

	"github.com/zitadel/oidc/v3/pkg/op"

	"verif/harness/engine"
	"verif/harness/rig"
)

// Parts "history-verify", "history-endpoint", "history-reqobj".
//
// The statement quantifies over every assertion / request object, not over "the first one an
// instance sees": verifiers (op.JWTProfileVerifier) and providers (op.Provider, LegacyServer)
// are long-lived objects of an application. These parts therefore execute ALL sequences of
// length 2 (thorough: 3) over an alphabet of assertions / requests on ONE instance that is
// created for the sequence and lives through it, and judge every call by the SAME reference
// predicate as the single-call parts, evaluated for that call's input alone. Whatever the
// instance saw before must make no difference: a call is accepted only if signed by a key
// the storage holds for the client IT names, and the identity is then exactly that client.
//
// Every sequence gets a fresh instance (verifier resp. provider + routers), so a verdict
// never depends on the enumeration order or on the worker that ran it; the storage (state
// and journal) is re-primed before each call, so the oracle of a call is history-free while
// anything the instance itself remembers is carried along.

// ---------------------------------------------------------------------------
// folding the per-call verdicts of one history into one engine.Result

type stepT struct {
	name   string        // the letter
	res    engine.Result // verdict of the single-call oracle for this call
	expect want
}

func wantClass(w want) string {
	switch w {
	case mustAccept:
		return "A"
	case mustReject:
		return "R"
	}
	return "E"
}

// shortOutcome keeps the (rule, outcome) space of a history small.
func shortOutcome(o string) string {
	switch {
	case o == "accepted" || o == "served" || o == "object" || o == "object-but-scope":
		return "acc"
	case strings.HasPrefix(o, "rejected:") || strings.HasPrefix(o, "refused-") || strings.HasPrefix(o, "failed-"):
		return "rej"
	}
	return o // panic, acted-not-served, plain, mixture, switched, harness-panic
}

// foldHistory: Rule = the expectation classes of the calls (A must accept / R must reject /
// E either), Outcome = what each call did. The first call that violates its own oracle
// decides. control(i) executes call i alone on a fresh instance: if it violates in the same
// way there, the defect is not one of history and keeps the single-call signature;
// otherwise the signature says "history-dependent".
func foldHistory(steps []stepT, control func(i int) engine.Result) engine.Result {
	var rules, outs []string
	for i, s := range steps {
		rules = append(rules, wantClass(s.expect))
		outs = append(outs, shortOutcome(s.res.Outcome))
		if s.res.Sig == "" {
			continue
		}
		rule, outcome := strings.Join(rules, ">"), strings.Join(outs, ",")
		var before []string
		for _, p := range steps[:i] {
			before = append(before, p.name+" -> "+p.res.Outcome)
		}
		if i == 0 {
			return engine.Bad(rule, outcome, s.res.Sig, fmt.Sprintf("call 1 of the history (%s) on a fresh instance: %s", s.name, s.res.Detail))
		}
		if c := control(i); c.Sig == s.res.Sig {
			return engine.Bad(rule, outcome, s.res.Sig, fmt.Sprintf("call %d of the history (%s) after %v, and in the same way alone on a fresh instance: %s", i+1, s.name, before, s.res.Detail))
		} else {
			return engine.Bad(rule, outcome, "C14/history-dependent/"+strings.TrimPrefix(s.res.Sig, "C14/"),
				fmt.Sprintf("call %d (%s) on an instance that had served %v; the same call alone on a fresh instance: rule=%s outcome=%s sig=%q. %s",
					i+1, s.name, before, c.Rule, c.Outcome, c.Sig, s.res.Detail))
		}
	}
	return engine.OK(strings.Join(rules, ">"), strings.Join(outs, ","))
}

// historyDepth: 2 calls per history (thorough: 3). A replay file of a three-call history is
// re-run with all its calls whatever the tier of the replaying run.
func historyDepth(c *engine.Check) int {
	if c.ReplayFile != "" {
		var desc map[string]string
		if _, err := c.LoadReplay(&desc); err == nil {
			if _, ok := desc["s3"]; ok {
				return 3
			}
			return 2
		}
	}
	return engine.Pick(c, 2, 3)
}

func historyDims(depth int, letters []string, lead ...engine.Dim) engine.Space {
	sp := append(engine.Space{}, lead...)
	for i := 1; i <= depth; i++ {
		sp = append(sp, engine.D(fmt.Sprintf("s%d", i), letters...))
	}
	return sp
}

// ---------------------------------------------------------------------------
// history-verify: sequences of op.VerifyJWTAssertion calls on one JWTProfileVerifier

type hvLetter struct {
	name string
	a    assertionT
}

// hvKeys: the signing keys of the alphabet with the kid under which the key is registered
// (attacker: not registered anywhere).
var hvKeys = []string{"A.k1/RS256", "A.k2/ES256", "B.k/ES256", "attacker/RS256"}

// hvAlphabet: iss {A, B, unknown} x signing key {A.k1, A.k2, B.k, attacker} x header kid
// {A.k1's, A.k2's, B.k's, absent} (so for every key: its own kid, a kid of the other client, a
// kid of another key of the same client, none) x {valid, expired}, sub = iss; plus, for the
// genuine assertions of A and B, the representatives of the remaining clauses: sub = a user
// (accepted under the custom subject check only), and for A: sub / aud / exp absent.
func hvAlphabet() []hvLetter {
	var out []hvLetter
	add := func(iss, key, kid, tm, special string) {
		a := assertionT{iss: iss, sub: iss, aud: "[I]", iat: "-10", exp: "3600", extra: "none", kid: kid, signer: key}
		if tm == "expired" {
			a.exp = "-3600"
		}
		kn := kid
		if kn == "" {
			kn = "none"
		}
		name := fmt.Sprintf("iss=%s key=%s kid=%s %s", iss, key, kn, tm)
		switch special {
		case "sub=u1":
			a.sub = "u1"
		case "sub-absent":
			a.sub = ""
		case "aud-absent":
			a.aud = "absent"
		case "exp-absent":
			a.exp = "absent"
		}
		if special != "" {
			name += " " + special
		}
		out = append(out, hvLetter{name, a})
	}
	for _, iss := range []string{A, B, ghost} {
		for _, key := range hvKeys {
			for _, kid := range []string{"jk1", "jk2", "bk1", ""} {
				for _, tm := range []string{"valid", "expired"} {
					add(iss, key, kid, tm, "")
				}
			}
		}
	}
	add(A, "A.k2/ES256", "jk2", "valid", "sub=u1")
	add(B, "B.k/ES256", "bk1", "valid", "sub=u1")
	add(A, "A.k2/ES256", "jk2", "valid", "sub-absent")
	add(A, "A.k2/ES256", "jk2", "valid", "aud-absent")
	add(A, "A.k2/ES256", "jk2", "valid", "exp-absent")
	return out
}

var hvVariants = []string{"default", "custom-subject", "keyset", "keyset-custom-subject"}

func runHistoryVerify(t *testing.T, c *engine.Check) {
	alphabet := hvAlphabet()
	names := make([]string, len(alphabet))
	index := map[string]int{}
	for i, l := range alphabet {
		names[i] = l.name
		index[l.name] = i
	}
	depth := historyDepth(c)
	sp := historyDims(depth, names, engine.D("variant", hvVariants...))
	cfg := providerCfg // issuer I, max age 1h, offset 1s: the provider's own verifier settings
	now := vT0.Add(250 * time.Millisecond)
	c.RunE1(engine.E1{
		Part:  "history-verify",
		Space: sp,
		K:     len(sp), // full product: every sequence x every verifier kind
		NewWorker: func(int) func(engine.Vec) engine.Result {
			r := rig.MustNew(rig.Opts{Cfg: newConfig()}) // the storage: answers strictly per (kid, client id)
			type memoT struct {
				tok    string
				expect want
				rule   string
			}
			memo := map[[2]int]memoT{} // (letter, custom subject policy) -> reference verdict
			ref := func(li int, custom bool) (assertionT, memoT) {
				a := alphabet[li].a
				a.subPolicy = "iss"
				k := [2]int{li, 0}
				if custom {
					a.subPolicy, k[1] = "iss-or-u1", 1
				}
				m, ok := memo[k]
				if !ok {
					m.tok = serialize(a.signer, a.kid, a.payload(vT0, cfg.issuer))
					m.expect, m.rule = judge(a, m.tok, vT0, now, cfg)
					memo[k] = m
				}
				return a, m
			}
			return func(v engine.Vec) engine.Result {
				variant := sp.Get(v, "variant")
				custom := strings.HasSuffix(variant, "custom-subject")
				seq := make([]int, depth)
				for i := range seq {
					seq[i] = index[sp.Get(v, fmt.Sprintf("s%d", i+1))]
				}
				// run executes the calls of letters on ONE verifier instance
				run := func(letters []int) []stepT {
					var ksCalls []string
					var opts []op.JWTProfileVerifierOption
					if custom {
						opts = append(opts, op.SubjectCheck(customSubject))
					}
					var ver *op.JWTProfileVerifier
					if strings.HasPrefix(variant, "keyset") {
						ver = op.NewJWTProfileVerifierKeySet(issKeySet{calls: &ksCalls}, cfg.issuer, cfg.maxAge, cfg.offset, opts...)
					} else {
						ver = op.NewJWTProfileVerifier(r.Storage, cfg.issuer, cfg.maxAge, cfg.offset, opts...)
					}
					steps := make([]stepT, 0, len(letters))
					pan := engine.Bubble(t, now.Sub(engine.Epoch), func() {
						for i, li := range letters {
							a, m := ref(li, custom)
							r.Core.Reset(r.Core.St) // clears the journal
							ksCalls = ksCalls[:0]
							var obs verifyObs
							obs.pan = engine.Safe(func() {
								obs.req, obs.err = op.VerifyJWTAssertion(context.Background(), m.tok, ver)
							})
							if strings.HasPrefix(variant, "keyset") {
								obs.lookups = append([]string(nil), ksCalls...)
							} else {
								obs.lookups = keyLookups(r)
							}
							res := evalVerify(a, m.tok, m.expect, m.rule, variant, cfg.issuer, obs, i > 0, func() string {
								return fmt.Sprintf("assertion header=%+v payload=%s verifier{issuer=%s maxAge=%s offset=%s %s} now=T0+250ms", headerOf(m.tok), parseCompact(m.tok).payload, cfg.issuer, cfg.maxAge, cfg.offset, variant)
							})
							steps = append(steps, stepT{alphabet[li].name, res, m.expect})
							if res.Sig != "" {
								return
							}
						}
					})
					if pan != "" {
						steps = append(steps, stepT{"-", engine.Bad("harness", "harness-panic", "C14/harness-panic", pan), either})
					}
					return steps
				}
				return foldHistory(run(seq), func(i int) engine.Result {
					alone := run(seq[i : i+1])
					return alone[len(alone)-1].res
				})
			}
		},
	})
}

// ---------------------------------------------------------------------------
// history-endpoint: sequences of HTTP requests carrying an assertion on one provider

type heAssertion struct {
	name, iss, signer, kid string
}

// the assertions: genuine ones of A and B, and assertions naming one client but signed by
// the other client's key (under the signer's own kid / under a kid of the named client) or
// by an unregistered key under a kid of the named client.
var heAssertions = []heAssertion{
	{"A-genuine", A, "A.k2/ES256", "jk2"},
	{"B-genuine", B, "B.k/ES256", "bk1"},
	{"A-signed-by-B", A, "B.k/ES256", "bk1"},
	{"A-signed-by-B-kid-of-A", A, "B.k/ES256", "jk2"},
	{"B-signed-by-A", B, "A.k2/ES256", "jk2"},
	{"B-signed-by-A-kid-of-B", B, "A.k2/ES256", "bk1"},
	{"A-signed-by-attacker", A, "attacker/RS256", "jk1"},
	{"B-signed-by-attacker", B, "attacker/RS256", "bk1"},
}

var heOps = []string{"code", "refresh", "introspect", "revoke", "bearer", "device", "devtoken"}

func runHistoryEndpoint(t *testing.T, c *engine.Check) {
	buildBase(t)
	if base.err != "" {
		c.Internal(base.err)
		return
	}
	type letterT struct {
		op  string
		a   assertionT
		tok string
	}
	var names []string
	letters := map[string]letterT{}
	for _, o := range heOps {
		for _, x := range heAssertions {
			a := assertionT{iss: x.iss, sub: x.iss, aud: "[I]", iat: "-10", exp: "3600", extra: "none", kid: x.kid, signer: x.signer, subPolicy: "iss"}
			n := o + ":" + x.name
			names = append(names, n)
			letters[n] = letterT{o, a, serialize(a.signer, a.kid, a.payload(eT0, I))}
		}
	}
	depth := historyDepth(c)
	sp := historyDims(depth, names, engine.D("router", "provider", "legacy"))
	now := eT0.Add(250 * time.Millisecond)
	c.RunE1(engine.E1{
		Part:  "history-endpoint",
		Space: sp,
		K:     len(sp),
		NewWorker: func(int) func(engine.Vec) engine.Result {
			return func(v engine.Vec) engine.Result {
				router := sp.Get(v, "router")
				seq := make([]string, depth)
				for i := range seq {
					seq[i] = sp.Get(v, fmt.Sprintf("s%d", i+1))
				}
				// run sends the requests of names to ONE provider (and its router) created here;
				// endpointCaseW re-primes the storage with the prepared state before each request.
				run := func(names []string) []stepT {
					r := newRig(true)
					var steps []stepT
					for i, n := range names {
						l := letters[n]
						res, expect := endpointCaseW(t, r, l.op, router, l.a, l.tok, "jwt-bearer", "absent", now, "", i > 0)
						steps = append(steps, stepT{n, res, expect})
						if res.Sig != "" {
							break
						}
					}
					return steps
				}
				return foldHistory(run(seq), func(i int) engine.Result { return run(seq[i : i+1])[0].res })
			}
		},
	})
}

// ---------------------------------------------------------------------------
// history-reqobj: sequences of /authorize requests with a request object on one provider

func runHistoryReqObj(t *testing.T, c *engine.Check) {
	type letterT map[string]string
	var names []string
	letters := map[string]letterT{}
	for _, outer := range []string{A, B} {
		for _, oiss := range []string{"outer", "peer"} {
			for _, ocid := range []string{"outer", "peer"} {
				for _, signer := range []string{"outer.k", "peer.k-own-kid", "peer.k-outer-kid", "op-key"} {
					n := fmt.Sprintf("outer=%s iss=%s client_id=%s signer=%s", outer, oiss, ocid, signer)
					names = append(names, n)
					letters[n] = letterT{"feature": "on", "outer": outer, "oiss": oiss, "ocid": ocid, "oaud": "[I]", "ort": "same", "outerRT": "code",
						"signer": signer, "members": "all", "plainScope": "openid email"}
				}
			}
		}
	}
	depth := historyDepth(c)
	sp := historyDims(depth, names, engine.D("router", "provider", "legacy"))
	c.RunE1(engine.E1{
		Part:  "history-reqobj",
		Space: sp,
		K:     len(sp),
		NewWorker: func(int) func(engine.Vec) engine.Result {
			return func(v engine.Vec) engine.Result {
				router := sp.Get(v, "router")
				seq := make([]string, depth)
				for i := range seq {
					seq[i] = sp.Get(v, fmt.Sprintf("s%d", i+1))
				}
				run := func(names []string) []stepT {
					r := newRig(true)
					var steps []stepT
					for _, n := range names {
						l := letters[n]
						res, expect := reqobjCaseW(t, r, func(k string) string {
							if k == "router" {
								return router
							}
							x, ok := l[k]
							if !ok {
								panic("c14: history-reqobj letter lacks " + k)
							}
							return x
						})
						steps = append(steps, stepT{n, res, expect})
						if res.Sig != "" {
							break
						}
					}
					return steps
				}
				return foldHistory(run(seq), func(i int) engine.Result { return run(seq[i : i+1])[0].res })
			}
		},
	})
}
