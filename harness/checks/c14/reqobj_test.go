package c14

import (
	"encoding/json"
	"fmt"
	"net/url"
	"slices"
	"strings"
	"testing"

	"verif/harness/engine"
	"verif/harness/rig"
	"verif/harness/rig/refstore"
)

// part "reqobj": signed request objects on /authorize.
//
// Statement: parameters of a signed request object override the plain query parameters
// only when the object is signed by the requesting client, names it as issuer, targets
// this issuer as audience and agrees with the outer client_id and response_type.

var members = []string{"redirect_uri", "scope", "state", "nonce", "response_mode", "prompt", "code_challenge"}

func reqobjSpace(thorough bool) engine.Space {
	mem := []string{"all", "none", "redirect_uri", "scope", "state", "nonce", "response_mode", "prompt", "code_challenge", "redir-foreign"}
	auds := []string{"[I]", "[x]", "absent", "I-string"}
	if thorough {
		mem = append(mem, "redirect_uri+state", "scope+nonce", "all+redir-foreign", "state+code_challenge")
		auds = append(auds, "[x,I]", "[tokenURL]", "[I/]", "[]")
	}
	return engine.Space{
		engine.D("router", "provider", "legacy"),
		engine.D("feature", "on", "off"),
		engine.D("outer", A, B),
		engine.D("oiss", "outer", "peer", "absent", ghost),
		engine.D("ocid", "outer", "peer", "absent"),
		engine.D("oaud", auds...),
		engine.D("ort", "same", "different", "absent"),
		engine.D("outerRT", "code"), // the multi-valued outer response types: part reqobj-rt
		engine.D("signer", "outer.k", "outer.rsa", "peer.k-own-kid", "peer.k-outer-kid", "op-key", "none", "hs-pub", "bad"),
		engine.D("members", mem...),
		engine.D("plainScope", "openid email", "email"),
	}
}

func secondRedirect(id string) string {
	if id == B {
		return "https://rpb.example/cb2"
	}
	return cbA2
}

func plainValue(m, outer, plainScope string) []string {
	switch m {
	case "redirect_uri":
		return []string{redirectOf(outer)}
	case "scope":
		return []string{plainScope}
	case "state":
		return []string{"plain-state"}
	case "nonce":
		return []string{"plain-nonce"}
	case "response_mode":
		return []string{"query"}
	case "prompt":
		return []string{"consent"}
	case "code_challenge":
		return []string{"PlainChallenge-PlainChallenge-PlainChallenge-0", "S256"}
	}
	panic(m)
}

func objectValue(m, outer string, foreign bool) []string {
	switch m {
	case "redirect_uri":
		if foreign {
			return []string{redirectOf(peerOf(outer))}
		}
		return []string{secondRedirect(outer)}
	case "scope":
		return []string{"openid profile"}
	case "state":
		return []string{"object-state"}
	case "nonce":
		return []string{"object-nonce"}
	case "response_mode":
		return []string{"fragment"}
	case "prompt":
		return []string{"login"}
	case "code_challenge":
		return []string{"ObjectChallenge-ObjectChallenge-ObjectChallenge", "plain"}
	}
	panic(m)
}

// journal argument positions of refstore.CreateAuthRequest
var argPos = map[string][]int{"redirect_uri": {1}, "response_mode": {3}, "state": {4}, "nonce": {5}, "scope": {6}, "code_challenge": {7, 8}, "prompt": {9}}

func roSigner(name, outer string) (signer, kid string, skip bool) {
	ownS, ownKid := keyOf(outer)
	peerS, peerKid := keyOf(peerOf(outer))
	// "key-of:<id>" / "key-of:nm:<kind>": the key of that registered client (of the client whose
	// id is that near-miss of the requesting client's id), under its own kid
	if id, ok := strings.CutPrefix(name, "key-of:"); ok {
		if k, ok := strings.CutPrefix(id, "nm:"); ok {
			id = nearMiss(outer, k)
		}
		s, kid := keyOf(id)
		return s, kid, false
	}
	// "<outer.k|peer.k>|nm:<kind>": the key under a near-miss of the kid the OUTER client's key is
	// registered under
	if p := strings.SplitN(name, "|nm:", 2); len(p) == 2 {
		switch p[0] {
		case "outer.k":
			return ownS, nearMiss(ownKid, p[1]), false
		case "peer.k":
			return peerS, nearMiss(ownKid, p[1]), false
		}
	}
	switch name {
	case "outer.k":
		return ownS, ownKid, false
	case "outer.rsa":
		if outer == B {
			return "", "", true // B has no RSA key
		}
		return "A.k1/RS256", "jk1", false
	case "peer.k-own-kid":
		return peerS, peerKid, false
	case "peer.k-outer-kid":
		return peerS, ownKid, false
	case "op-key":
		return "op-key/ES256", ownKid, false
	case "none":
		return "none", ownKid, false
	case "hs-pub":
		if outer == B {
			return "B.kpub/HS256", ownKid, false
		}
		return "A.k1pub/HS256", "jk1", false
	case "bad":
		if outer == B {
			return "B.k/ES256-bad", ownKid, false
		}
		return "A.k2/ES256-bad", ownKid, false
	}
	panic(name)
}

func init() {
	signers["B.kpub/HS256"] = signerT{key: "p256c", alg: "HS256", mode: "hs-pub"}
	signers["B.k/ES256-bad"] = signerT{key: "p256c", alg: "ES256", mode: "corrupt"}
}

// objectRT: the response_type member of the object for an outer response type and a relation
// name, and how the statement ("agrees with the outer ... response_type") classifies it:
// "equal"; "disagrees" (a strict subset, a strict superset, disjoint values: the object must
// not take effect); "reordered" (the same values in another order: Either); "absent".
// skip: the relation does not exist for this outer type.
func objectRT(outerRT, rel string) (val, class string, skip bool) {
	type row struct{ disjoint, superset, subset, subset2, reordered string }
	tab := map[string]row{
		"code":           {disjoint: "id_token", superset: "code id_token"},
		"code id_token":  {disjoint: "token", superset: "code id_token token", subset: "code", subset2: "id_token", reordered: "id_token code"},
		"id_token token": {disjoint: "code", superset: "code id_token token", subset: "id_token", subset2: "token", reordered: "token id_token"},
	}
	r, ok := tab[outerRT]
	if !ok {
		panic("c14: outer response type " + outerRT)
	}
	if k, ok := strings.CutPrefix(rel, "nm:"); ok {
		// a near-miss of the outer response_type. response_type is a space-separated list: a
		// spelling with the same VALUES (extra blanks, a value twice) is judged like "reordered"
		// (Either); every other string names other values and disagrees.
		val = nearMiss(outerRT, k)
		got, want := strings.Fields(val), strings.Fields(outerRT)
		slices.Sort(got)
		slices.Sort(want)
		if slices.Equal(slices.Compact(got), slices.Compact(want)) {
			return val, "reordered", false
		}
		return val, "disagrees", false
	}
	switch rel {
	case "same", "equal":
		return outerRT, "equal", false
	case "absent":
		return "", "absent", false
	case "different", "disjoint":
		return r.disjoint, "disagrees", false
	case "superset":
		return r.superset, "disagrees", false
	case "subset":
		return r.subset, "disagrees", r.subset == ""
	case "subset-2nd":
		return r.subset2, "disagrees", r.subset2 == ""
	case "reordered":
		return r.reordered, "reordered", r.reordered == ""
	}
	panic("c14: response type relation " + rel)
}

// part "reqobj-rt": multi-valued response types. "Agrees with the outer response_type" is a
// comparison of value SETS as soon as the outer type has several values; the part crosses the
// outer type {code, code id_token, id_token token} with the relation of the object's member
// to it {equal, strict subset (either element), strict superset, reordered, disjoint, absent}.
func runReqObjRT(t *testing.T, c *engine.Check) {
	sp := engine.Space{
		engine.D("router", "provider", "legacy"),
		engine.D("outer", A, B),
		engine.D("outerRT", "code", "code id_token", "id_token token"),
		engine.D("ort", "equal", "subset", "subset-2nd", "superset", "reordered", "disjoint", "absent"),
		engine.D("signer", "outer.k", "outer.rsa", "peer.k-outer-kid", "op-key"),
		engine.D("members", "all", "none", "redirect_uri", "scope", "state", "nonce", "response_mode", "prompt", "code_challenge"),
		engine.D("ocid", "outer", "absent"),
		engine.D("plainScope", "openid email", "email"),
		engine.D("feature", "on", "off"),
		engine.D("oiss", "outer", "peer", "absent"),
		engine.D("oaud", "[I]", "[x]", "absent", "[x,I]"),
	}
	c.RunE1(engine.E1{
		Part:   "reqobj-rt",
		Space:  sp,
		Groups: [][]string{{"router", "outer", "outerRT", "ort", "signer", "members", "ocid", "plainScope"}},
		K:      engine.Pick(c, 0, 2),
		Skip: func(v engine.Vec) bool {
			_, _, skip := roSigner(sp.Get(v, "signer"), sp.Get(v, "outer"))
			_, _, skip2 := objectRT(sp.Get(v, "outerRT"), sp.Get(v, "ort"))
			return skip || skip2
		},
		NewWorker: func(int) func(engine.Vec) engine.Result {
			return func(v engine.Vec) engine.Result {
				g := func(n string) string { return sp.Get(v, n) }
				return reqobjCase(t, newRig(g("feature") == "on"), g)
			}
		},
	})
}

func runReqObj(t *testing.T, c *engine.Check) {
	sp := reqobjSpace(c.Thorough())
	c.RunE1(engine.E1{
		Part:  "reqobj",
		Space: sp,
		K:     len(sp), // full product
		Skip: func(v engine.Vec) bool {
			_, _, skip := roSigner(sp.Get(v, "signer"), sp.Get(v, "outer"))
			return skip
		},
		NewWorker: func(int) func(engine.Vec) engine.Result {
			return func(v engine.Vec) engine.Result {
				g := func(n string) string { return sp.Get(v, n) }
				// a provider of its own for every execution (histories: part history-reqobj)
				return reqobjCase(t, newRig(g("feature") == "on"), g)
			}
		},
	})
}

func reqobjCase(t *testing.T, r *rig.Rig, g func(string) string) engine.Result {
	res, _ := reqobjCaseW(t, r, g)
	return res
}

// reqobjCaseW additionally returns the expectation of the reference predicate.
func reqobjCaseW(t *testing.T, r *rig.Rig, g func(string) string) (_ engine.Result, expect want) {
	return reqobjCaseX(t, r, I, g)
}

// reqobjCaseX: r is a provider whose issuer is issuer.
func reqobjCaseX(t *testing.T, r *rig.Rig, issuer string, g func(string) string) (_ engine.Result, expect want) {
	outer, router, plainScope := g("outer"), g("router"), g("plainScope")
	resolve := func(x string) string {
		if k, ok := strings.CutPrefix(x, "nm:"); ok {
			return nearMiss(outer, k) // a near-miss of the requesting client's id
		}
		switch x {
		case "outer":
			return outer
		case "peer":
			return peerOf(outer)
		case "absent":
			return ""
		}
		return x
	}
	oiss, ocid := resolve(g("oiss")), resolve(g("ocid"))
	present := map[string]bool{}
	foreign := false
	for _, m := range strings.Split(g("members"), "+") {
		switch m {
		case "all":
			for _, x := range members {
				present[x] = true
			}
		case "none":
		case "redir-foreign":
			present["redirect_uri"], foreign = true, true
		default:
			present[m] = true
		}
	}
	// ---- the object
	obj := map[string]any{}
	if oiss != "" {
		obj["iss"] = oiss
	}
	if ocid != "" {
		obj["client_id"] = ocid
	}
	if v, ok, _ := audValue(g("oaud"), issuer); ok {
		obj["aud"] = v
	}
	outerRT := g("outerRT")
	objRT, rtClass, _ := objectRT(outerRT, g("ort"))
	if rtClass != "absent" {
		obj["response_type"] = objRT
	}
	for m := range present {
		ov := objectValue(m, outer, foreign)
		obj[m] = ov[0]
		if m == "code_challenge" {
			obj["code_challenge_method"] = ov[1]
		}
	}
	payload, _ := json.Marshal(obj)
	sname, kid, _ := roSigner(g("signer"), outer)
	tok := serialize(sname, kid, payload)

	// ---- reference predicate
	rule := "all-conditions-hold"
	expect = mustAccept // mustAccept = object's values must be used
	soft := ""
	hard := func(s string) {
		if expect != mustReject {
			expect, rule = mustReject, s
		}
	}
	anyKey, named := signedFor(tok, outer)
	_, _, audOK := audValue(g("oaud"), issuer)
	switch {
	case g("feature") == "off":
		hard("request-objects-not-supported")
	case !anyKey:
		hard("not-signed-by-requesting-client")
	case oiss != outer:
		hard("iss-is-not-the-requesting-client")
	case ocid != "" && ocid != outer:
		hard("client_id-claim-disagrees-with-outer")
	case !audOK:
		hard("aud-lacks-provider-issuer")
	case rtClass == "disagrees":
		hard("response_type-disagrees-with-outer")
	}
	if expect != mustReject {
		switch {
		case !named:
			soft = "signed-by-client-key-but-kid-names-none"
		case !listedAlgs[parseCompact(tok).alg]:
			soft = "alg-not-in-accepted-list"
		case ocid == "":
			soft = "client_id-claim-absent"
		case rtClass == "absent":
			soft = "response_type-claim-absent"
		case rtClass == "reordered":
			soft = "response_type-same-values-other-order"
		case foreign:
			soft = "object-redirect_uri-not-registered-for-client"
		}
		if soft != "" {
			expect, rule = either, soft
		}
	}

	// ---- the request
	q := url.Values{"client_id": {outer}, "response_type": {outerRT}, "request": {tok}}
	for _, m := range members {
		pv := plainValue(m, outer, plainScope)
		q.Set(m, pv[0])
		if m == "code_challenge" {
			q.Set("code_challenge_method", pv[1])
		}
	}
	ri := 0
	if router == "legacy" {
		ri = 1
	}
	r.Core.Reset(refstore.NewState())
	var resp *rig.Resp
	pan := engine.Bubble(t, eT0.Sub(engine.Epoch), func() {
		resp = r.Do(ri, rig.Req("GET", "/authorize", q, nil))
	})
	if pan != "" {
		return engine.Bad(rule, "harness-panic", "C14/harness-panic", pan), expect
	}
	site := "/" + router
	desc := func() string {
		return fmt.Sprintf("/authorize on %s router of issuer "+issuer+" (RequestObjectSupported=%s) outer client_id=%s plain scope=%q; object header=%v payload=%s → status %d location %q journal %v",
			router, g("feature"), outer, plainScope, headerOf(tok), payload, resp.Status, resp.Header.Get("Location"), r.Core.JournalCopy())
	}
	calls := r.Core.Calls("CreateAuthRequest")
	if len(calls) == 0 {
		outcome := fmt.Sprintf("failed-%dxx", resp.Status/100)
		if resp.Panic != "" {
			outcome = "panic"
		}
		loc := resp.Header.Get("Location")
		if expect == mustReject && present["redirect_uri"] && strings.HasPrefix(loc, objectValue("redirect_uri", outer, foreign)[0]) {
			return engine.Bad(rule, outcome, "C14/error-redirect-to-object-uri-despite:"+rule+site, "the object must not count ("+rule+") but the error was redirected to its redirect_uri: "+desc()), expect
		}
		if expect == mustAccept && resp.Panic == "" {
			return engine.Bad(rule, outcome, "C14/valid-request-object-not-honoured"+site, "all conditions hold but no auth request was created: "+desc()), expect
		}
		if expect == mustAccept {
			return engine.Bad(rule, outcome, "C14/valid-request-object-not-honoured"+site+"/panic", "all conditions hold but the handler panicked: "+resp.Panic), expect
		}
		return engine.OK(rule, outcome), expect
	}
	args := calls[0].Args
	if len(calls) > 1 || args[0] != outer || args[2] != outerRT {
		return engine.Bad(rule, "switched", "C14/authorize-switched-client-or-response-type"+site, "auth request created for another client / response type than the outer ones: "+desc()), expect
	}
	usedObj, usedPlain, other := []string{}, []string{}, []string{}
	for _, m := range members {
		pv := plainValue(m, outer, plainScope)
		isPlain, isObj := true, present[m]
		var ov []string
		if present[m] {
			ov = objectValue(m, outer, foreign)
		}
		for i, pos := range argPos[m] {
			if args[pos] != pv[i] {
				isPlain = false
			}
			if present[m] && args[pos] != ov[i] {
				isObj = false
			}
		}
		switch {
		case isObj:
			usedObj = append(usedObj, m)
		case isPlain && present[m]:
			usedPlain = append(usedPlain, m)
		case isPlain:
		default:
			other = append(other, m)
		}
	}
	outcome := "plain"
	switch {
	case len(other) > 0:
		outcome = "mixture"
	case len(usedObj) > 0 && len(usedPlain) == 0:
		outcome = "object"
	case len(usedObj) > 0:
		outcome = "mixture"
		// an object that is honoured need not override scope when the plain scope lacks openid
		if len(usedPlain) == 1 && usedPlain[0] == "scope" && plainScope == "email" {
			outcome = "object-but-scope"
		}
	}
	switch expect {
	case mustReject:
		if len(usedObj) > 0 || len(other) > 0 {
			return engine.Bad(rule, outcome, "C14/object-values-used-despite:"+rule+site,
				fmt.Sprintf("the object must not count (%s) but the stored auth request carries its values for %v (other: %v): %s", rule, usedObj, other, desc())), expect
		}
	case mustAccept:
		if len(present) == 0 || (len(present) == 1 && present["scope"] && plainScope == "email") {
			return engine.OK("valid-object-without-discriminating-member", outcome), expect
		}
		if outcome != "object" && outcome != "object-but-scope" {
			return engine.Bad(rule, outcome, "C14/valid-request-object-not-honoured"+site+"/"+outcome,
				fmt.Sprintf("all conditions hold but the stored auth request does not carry the object's values (object: %v plain: %v other: %v): %s", usedObj, usedPlain, other, desc())), expect
		}
	}
	return engine.OK(rule, outcome), expect
}
