package c14

import (
	"context"
	"strconv"
	"testing"
	"time"

	"github.com/zitadel/oidc/v3/pkg/op"

	"verif/harness/engine"
	"verif/harness/rig"
)

// parts "window-verify" / "window-endpoint": the time windows of an assertion RELATIVE TO THE
// CONFIGURED OFFSET of the verifier.
//
// The offset of a JWT profile verifier (op.NewJWTProfileVerifier's last duration; the Provider's
// own verifier uses 1 s, integrators use a minute or an hour) is a dimension of its own here:
// {1 s, 0, 1 m, 1 h}, and the exp / iat points are not a fixed list of seconds but POSITIONS
// expressed in the offset o and the max age m of the verifier under test:
//
//	exp:  ..., now-o-1, now-o, now-o+1, now-o/2 (strictly inside (now-o, now)), now-2, now-1, now,
//	      now+1, now+2, now+o/2 (strictly inside (now, now+o)), now+o-1, now+o, now+o+1, now+o+2, ...
//	iat:  the same around now on the future side, now-o/2 and now-o on the past side, and the same
//	      pattern around now-m (max age), i.e. now-m-o-2 ... now-m+o+2
//
// crossed with the sub-second phase of the fake clock of the synctest bubble {0, 250, 750 ms}: "now"
// is exact, so every point is on a known side of every boundary.
//
// Oracle (judge, from the statement "it is unexpired, issued neither in the future nor more than
// the allowed age ago"): exp <= now-1s must be refused whatever the offset; exp >= now+o+1s: expiry
// cannot be the reason to refuse; iat > now+o+1s must be refused; iat <= now is not in the future;
// the max-age bound is Either within o+1s. With everything else right the assertion MUST be
// accepted / the operation served outside the Either bands: a verifier that applies the offset
// with the wrong sign to either claim fails one of the two directions.

// winT0: the whole second "now" sits in for part window-verify (vT0); the endpoint part uses eT0.

var winOffsets = []string{"1s", "0s", "1m0s", "1h0m0s"}

// positions; element 0 is valid under every offset (and the default max age)
var winExpPos = []string{"+o+3600", "absent", "-o-3600", "-o-2", "-o-1", "-o", "-o+1", "-o/2", "-2", "-1", "0", "+1", "+2", "+o/2", "+o-1", "+o", "+o+1", "+o+2"}
var winIatPos = []string{"-10", "absent", "0", "+1", "+2", "+o/2", "+o-1", "+o", "+o+1", "+o+2", "+o+3600", "-1", "-o/2", "-o", "-o-1",
	"-m-o-3600", "-m-o-2", "-m-o-1", "-m-o", "-m-o/2", "-m-2", "-m-1", "-m", "-m+1", "-m+2", "-m+o/2", "-m+o", "-m+o+1", "-m+o+2"}

// the smaller alphabets of the HTTP part (quick); thorough takes the full lists
var winExpPosEP = []string{"+o+3600", "absent", "-o-3600", "-o-1", "-o/2", "-1", "0", "+1", "+o/2", "+o", "+o+1", "+o+2"}
var winIatPosEP = []string{"-10", "absent", "0", "+1", "+o/2", "+o", "+o+1", "+o+2", "+o+3600", "-o/2", "-o-1", "-m-o-2", "-m-o/2", "-m-1", "-m+o/2", "-m+o+2"}

// resolvePos evaluates a position (a sum of signed terms over integers, o, m, o/2, m/2) in whole
// seconds for a verifier with offset o and max age m.
func resolvePos(pos string, o, m time.Duration) (string, bool) {
	if pos == "absent" {
		return "absent", false
	}
	os, ms := int64(o/time.Second), int64(m/time.Second)
	var sum int64
	i := 0
	for i < len(pos) {
		sign := int64(1)
		switch pos[i] {
		case '+':
			i++
		case '-':
			sign = -1
			i++
		}
		var term int64
		switch {
		case i < len(pos) && (pos[i] == 'o' || pos[i] == 'm'):
			term = os
			if pos[i] == 'm' {
				term = ms
			}
			i++
			if i+1 < len(pos) && pos[i] == '/' && pos[i+1] == '2' {
				term /= 2
				i += 2
			}
		default:
			j := i
			for j < len(pos) && pos[j] >= '0' && pos[j] <= '9' {
				j++
			}
			if j == i {
				panic("c14: position " + pos)
			}
			n, _ := strconv.ParseInt(pos[i:j], 10, 64)
			term = n
			i = j
		}
		sum += sign * term
	}
	return strconv.FormatInt(sum, 10), true
}

// winDup tells which positions of a list resolve, for (o, m), to the value of an EARLIER position
// of the same list (with o = 0 most positions coincide): such vectors are the same execution twice.
type winDupKey struct {
	list string
	o, m time.Duration
	pos  string
}

func winDups(list string, positions []string, offsets, maxAges []string) map[winDupKey]bool {
	out := map[winDupKey]bool{}
	for _, os := range offsets {
		for _, ms := range maxAges {
			o, m := mustDur(os), mustDur(ms)
			seen := map[string]bool{}
			for _, p := range positions {
				v, _ := resolvePos(p, o, m)
				if seen[v] {
					out[winDupKey{list, o, m, p}] = true
				}
				seen[v] = true
			}
		}
	}
	return out
}

// ---------------------------------------------------------------------------
// part window-verify: op.VerifyJWTAssertion / op.ClientJWTAuth directly

var winKeys = map[string][2]string{ // key dimension: (kid, signer)
	"A.k2/ES256":     {"jk2", "A.k2/ES256"},
	"A.k1/RS256":     {"jk1", "A.k1/RS256"},
	"attacker/RS256": {"jk1", "attacker/RS256"},
}

func runWindowVerify(t *testing.T, c *engine.Check) {
	maxAges := []string{"3600s", "0s", "600s", "1s"}
	sp := engine.Space{
		engine.D("offset", winOffsets...),
		engine.D("maxAge", maxAges...),
		engine.D("exp", winExpPos...),
		engine.D("iat", winIatPos...),
		engine.D("phase", "250ms", "750ms", "0ms"),
		engine.D("entry", "VerifyJWTAssertion", "ClientJWTAuth"),
		engine.D("variant", "default", "custom-subject", "keyset"),
		engine.D("key", "A.k2/ES256", "A.k1/RS256", "attacker/RS256"),
		engine.D("sub", "=iss", "u1"),
	}
	dups := winDups("exp", winExpPos, winOffsets, maxAges)
	for k := range winDups("iat", winIatPos, winOffsets, maxAges) {
		dups[k] = true
	}
	groups := [][]string{{"offset", "maxAge", "exp", "iat", "phase"}}
	ks := []int{1}
	if c.Thorough() {
		groups = [][]string{{"offset", "maxAge", "exp", "iat", "phase", "entry", "variant"}}
		ks = []int{2}
	}
	c.RunE1(engine.E1{
		Part:   "window-verify",
		Space:  sp,
		Groups: groups,
		Ks:     ks,
		Skip: func(v engine.Vec) bool {
			o, m := mustDur(sp.Get(v, "offset")), mustDur(sp.Get(v, "maxAge"))
			return dups[winDupKey{"exp", o, m, sp.Get(v, "exp")}] || dups[winDupKey{"iat", o, m, sp.Get(v, "iat")}]
		},
		NewWorker: func(int) func(engine.Vec) engine.Result {
			r := rig.MustNew(rig.Opts{Cfg: newConfig()})
			reg := registrationTable("default")
			return func(v engine.Vec) engine.Result {
				o, m := mustDur(sp.Get(v, "offset")), mustDur(sp.Get(v, "maxAge"))
				g := func(n string) string {
					switch n {
					case "iss":
						return A
					case "aud":
						return "[I]"
					case "kid":
						return winKeys[sp.Get(v, "key")][0]
					case "signer":
						return winKeys[sp.Get(v, "key")][1]
					case "extra":
						return "none"
					case "vIssuer":
						return "I"
					case "reg":
						return "default"
					case "exp", "iat":
						s, _ := resolvePos(sp.Get(v, n), o, m)
						return s
					}
					return sp.Get(v, n)
				}
				return verifyCase(t, r, reg, g)
			}
		},
	})
}

// ---------------------------------------------------------------------------
// part window-endpoint: both uses of an assertion (client authentication, jwt-bearer grant) on
// both routers, on a provider whose JWT profile verifier has the offset / max age under test

// windowProvider is an application's provider whose JWT profile verifier is built with the
// application's own max age and offset (op.NewJWTProfileVerifier). Everything else is the stock
// op.Provider.
type windowProvider struct {
	*op.Provider
	maxAge, offset time.Duration
}

func (p windowProvider) JWTProfileVerifier(ctx context.Context) *op.JWTProfileVerifier {
	return op.NewJWTProfileVerifier(p.Storage(), op.IssuerFromContext(ctx), p.maxAge, p.offset)
}

// newRigWindow: maxAge 1 h and offset 1 s = the stock provider itself (its built-in verifier);
// every other setting: both routers rebuilt over a windowProvider.
func newRigWindow(maxAge, offset time.Duration) *rig.Rig {
	r := newRig(true)
	if maxAge == providerCfg.maxAge && offset == providerCfg.offset {
		return r
	}
	wp := windowProvider{r.Provider, maxAge, offset}
	r.H[0] = op.CreateRouter(wp)
	r.H[1] = op.RegisterLegacyServer(op.NewLegacyServer(wp, rig.CopyEndpoints()), op.AuthorizeCallbackHandler(wp), op.WithFallbackLogger(rig.Discard))
	return r
}

func runWindowEndpoint(t *testing.T, c *engine.Check) {
	buildBase(t)
	if base.err != "" {
		c.Internal(base.err)
		return
	}
	expPos, iatPos := winExpPosEP, winIatPosEP
	if c.Thorough() {
		expPos, iatPos = winExpPos, winIatPos
	}
	maxAges := []string{"3600s", "0s", "600s"}
	sp := engine.Space{
		// code = private_key_jwt client authentication at the token endpoint, bearer = the jwt-bearer
		// grant; the other operations authenticate the client through op.ClientJWTAuth
		engine.D("op", "code", "bearer", "refresh", "introspect", "revoke", "device", "devtoken"),
		engine.D("router", "provider", "legacy"),
		engine.D("offset", winOffsets...),
		engine.D("maxAge", maxAges...),
		engine.D("exp", expPos...),
		engine.D("iat", iatPos...),
		engine.D("phase", "250ms", "750ms"),
		engine.D("iss", A, SVC),
	}
	dups := winDups("exp", expPos, winOffsets, maxAges)
	for k := range winDups("iat", iatPos, winOffsets, maxAges) {
		dups[k] = true
	}
	groups := [][]string{{"op", "router", "offset", "exp", "iat", "phase"}, {"op", "router", "offset", "maxAge", "iat", "phase"}}
	ks := []int{0, 0}
	if c.Thorough() {
		groups = [][]string{{"op", "router", "offset", "maxAge", "exp", "iat", "phase"}}
		ks = []int{1}
	}
	c.RunE1(engine.E1{
		Part:   "window-endpoint",
		Space:  sp,
		Groups: groups,
		Ks:     ks,
		Skip: func(v engine.Vec) bool {
			o, m := mustDur(sp.Get(v, "offset")), mustDur(sp.Get(v, "maxAge"))
			return dups[winDupKey{"exp", o, m, sp.Get(v, "exp")}] || dups[winDupKey{"iat", o, m, sp.Get(v, "iat")}]
		},
		NewWorker: func(int) func(engine.Vec) engine.Result {
			return func(v engine.Vec) engine.Result {
				o, m := mustDur(sp.Get(v, "offset")), mustDur(sp.Get(v, "maxAge"))
				r := newRigWindow(m, o) // a provider of its own for every execution
				a := assertionT{iss: sp.Get(v, "iss"), aud: "[I]", subPolicy: "iss"}
				a.sub = a.iss
				a.kid, a.signer = "jk2", "A.k2/ES256"
				if a.iss == SVC {
					a.kid, a.signer = "sk1", "svc.k/RS256"
				}
				a.exp, _ = resolvePos(sp.Get(v, "exp"), o, m)
				a.iat, _ = resolvePos(sp.Get(v, "iat"), o, m)
				now := eT0.Add(mustDur(sp.Get(v, "phase")))
				tok := serialize(a.signer, a.kid, a.payload(eT0, I))
				env := epEnv{cfg: vcfg{issuer: I, maxAge: m, offset: o}, base: &base}
				cid := "absent"
				res, _ := endpointCaseX(t, r, env, sp.Get(v, "op"), sp.Get(v, "router"), a, tok, "jwt-bearer", cid, now, "", false)
				return res
			}
		},
	})
}
