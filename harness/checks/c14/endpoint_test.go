package c14

import (
	"fmt"
	"net/url"
	"strings"
	"sync"
	"testing"
	"time"

	"verif/harness/engine"
	"verif/harness/rig"
	"verif/harness/rig/refstore"
)

// part "endpoint": the assertion as client_assertion (code, refresh, introspect, revoke,
// device authorization) and as jwt-bearer grant, on both routers.

// eT0: whole second of "now" for the HTTP parts (the base state is built at Epoch; the
// artifacts in it live 6 h / 12 h, see newConfig).
var eT0 = engine.Epoch.Add(2 * time.Hour)

// provider's fixed verifier configuration (op.Provider.JWTProfileVerifier)
var providerCfg = vcfg{issuer: I, maxAge: time.Hour, offset: time.Second}

type artifactsT struct {
	code, access, accessID, refresh, deviceCode string
}

type baseT struct {
	st    *refstore.State
	art   map[string]*artifactsT
	known map[string]bool // token ids of the base state
	err   string
}

var (
	baseOnce sync.Once
	base     baseT
)

func validAssertion(id string, t0 time.Time) string { return validAssertionFor(id, t0, I) }

// validAssertionFor: the canonical valid assertion of id for a provider whose issuer is issuer.
func validAssertionFor(id string, t0 time.Time, issuer string) string {
	kid, s := "jk2", "A.k2/ES256"
	switch id {
	case B:
		kid, s = "bk1", "B.k/ES256"
	case SVC:
		kid, s = "sk1", "svc.k/RS256"
	}
	a := assertionT{iss: id, sub: id, aud: "[V]", iat: "-10", exp: "3600", kid: kid, signer: s}
	return serialize(s, kid, a.payload(t0, issuer))
}

func redirectOf(id string) string {
	if id == B {
		return cbB
	}
	return cbA1
}

func buildBase(t *testing.T) { baseOnce.Do(func() { buildBaseFor(t, I, &base) }) }

// epEnv: what an endpoint case is judged against — the verifier settings of the provider it is
// sent to (issuer!) and the prepared storage state of that provider.
type epEnv struct {
	cfg  vcfg
	base *baseT
}

var defaultEnv = epEnv{cfg: providerCfg, base: &base}

var (
	issBaseMu sync.Mutex
	issBases  = map[string]*baseT{}
)

// envFor: the environment of a provider whose issuer is issuer (prepared state built once, with
// providers of that issuer).
func envFor(t *testing.T, issuer string) epEnv {
	if issuer == I {
		buildBase(t)
		return defaultEnv
	}
	issBaseMu.Lock()
	defer issBaseMu.Unlock()
	b := issBases[issuer]
	if b == nil {
		b = &baseT{}
		buildBaseFor(t, issuer, b)
		issBases[issuer] = b
	}
	cfg := providerCfg
	cfg.issuer = issuer
	return epEnv{cfg: cfg, base: b}
}

func buildBaseFor(t *testing.T, issuer string, basep *baseT) {
	{
		base := basep // (shadows the package variable inside this function)
		r := newRigIss(true, issuer)
		base.art = map[string]*artifactsT{}
		fail := func(f string, args ...any) { base.err = fmt.Sprintf(f, args...) }
		// every request that carries an assertion goes to a provider of its own (continuing on the
		// same storage state), so that preparing the state does not presuppose what part
		// history-endpoint examines
		fresh := func() {
			st := r.Core.St
			r = newRigIss(true, issuer)
			r.Core.Reset(st)
		}
		pan := engine.Bubble(t, 0, func() {
			for _, id := range []string{A, B} {
				a := &artifactsT{}
				code1, resp := r.CodeFlow(0, id, "u1", "openid offline_access", nil)
				if code1 == "" {
					fail("base: no code for %s: %d %s", id, resp.Status, resp.Body)
					return
				}
				before := map[string]bool{}
				for k := range r.Core.St.Tokens {
					before[k] = true
				}
				fresh()
				tr := r.Token(0, url.Values{"grant_type": {"authorization_code"}, "code": {code1}, "redirect_uri": {redirectOf(id)},
					"client_assertion": {validAssertionFor(id, engine.Epoch, issuer)}, "client_assertion_type": {atypeJWT}}, "")
				a.access, a.refresh = tr.Str("access_token"), tr.Str("refresh_token")
				if tr.Status != 200 || a.access == "" || a.refresh == "" {
					fail("base: code exchange for %s: %d %s", id, tr.Status, tr.Body)
					return
				}
				for k, tk := range r.Core.St.Tokens {
					if !before[k] && tk.ClientID == id {
						a.accessID = k
					}
				}
				a.code, resp = r.CodeFlow(0, id, "u1", "openid offline_access", nil)
				if a.code == "" || a.accessID == "" {
					fail("base: no second code for %s: %d %s", id, resp.Status, resp.Body)
					return
				}
				fresh()
				da := r.Do(0, rig.Req("POST", "/device_authorization", url.Values{"scope": {"openid"},
					"client_assertion": {validAssertionFor(id, engine.Epoch, issuer)}, "client_assertion_type": {atypeJWT}}, nil))
				a.deviceCode = da.Str("device_code")
				if da.Status != 200 || a.deviceCode == "" {
					fail("base: device authorization for %s: %d %s", id, da.Status, da.Body)
					return
				}
				if err := r.Core.ApproveDevice(da.Str("user_code"), "u1"); err != nil {
					fail("base: approve device for %s: %v", id, err)
					return
				}
				base.art[id] = a
			}
			base.st = r.Core.St.Clone()
			base.known = map[string]bool{}
			for k := range base.st.Tokens {
				base.known[k] = true
			}
		})
		if pan != "" {
			base.err = "base: panic: " + pan
		}
	}
}

var endpointSpace = engine.Space{
	engine.D("op", "code", "refresh", "introspect", "revoke", "device", "bearer", "devtoken"),
	engine.D("router", "provider", "legacy"),
	engine.D("iss", A, B, SVC, ghost, "absent"),
	engine.D("kid", "jk2", "jk1", "bk1", "sk1", "zz", "absent"),
	engine.D("signer", "A.k2/ES256", "A.k1/RS256", "A.k1/PS256", "B.k/ES256", "svc.k/RS256", "op-key/ES256", "attacker/RS256",
		"A.k1/RS384", "A.k1pub/HS256", "none", "A.k2/ES256-bad", "A.ed/EdDSA"),
	engine.D("sub", "=iss", "u1", "absent", "peer"),
	engine.D("aud", "[I]", "[x]", "[x,I]", "[tokenURL]", "absent", "I-string"),
	engine.D("iat", "-10", "absent", "8", "1", "-3590", "-3610", "-7200"),
	engine.D("exp", "3600", "absent", "-10", "1", "30"),
	engine.D("atype", "jwt-bearer", "absent", "wrong"),
	engine.D("cid", "absent", "=iss", "web"),
	engine.D("extra", "none", "scope"),
	engine.D("phase", "250ms", "750ms"),
	// the provider's JWT profile verifier: the stock one, or one with a custom SubjectCheck that
	// tolerates every subject (then sub need not equal iss; the identity is still iss)
	engine.D("pv", "default", "tolerant"),
}

func runEndpoint(t *testing.T, c *engine.Check) {
	buildBase(t)
	if base.err != "" {
		c.Internal(base.err)
		return
	}
	sp := endpointSpace
	c.RunE1(engine.E1{
		Part:  "endpoint",
		Space: sp,
		Groups: [][]string{
			{"op", "router", "iss", "kid", "signer"},
			{"op", "router", "sub", "aud", "iat", "exp", "atype", "cid"},
			{"op", "router", "iss", "sub", "pv", "cid"},
		},
		Ks: []int{1, engine.Pick(c, 0, 1), engine.Pick(c, 0, 1)},
		Skip: func(v engine.Vec) bool {
			// the jwt-bearer grant carries no client authentication members
			return sp.Get(v, "op") == "bearer" && (sp.Get(v, "atype") != "jwt-bearer" || sp.Get(v, "cid") != "absent")
		},
		NewWorker: func(int) func(engine.Vec) engine.Result {
			return func(v engine.Vec) engine.Result {
				// a provider of its own for every execution: the verdict of a case must not depend on
				// what the instance served before (that is the business of part history-endpoint)
				g := func(n string) string { return sp.Get(v, n) }
				r := newRigPV(true, g("pv"))
				a := decodeAssertion(g)
				if g("pv") == "tolerant" {
					a.subPolicy = "any"
				}
				now := eT0.Add(mustDur(g("phase")))
				tok := serialize(a.signer, a.kid, a.payload(eT0, I))
				return endpointCase(t, r, g("op"), g("router"), a, tok, g("atype"), g("cid"), now, "")
			}
		},
	})
}

// endpointCase presents tok at one endpoint and judges what the provider did.
// helperRule != "" (interop part): the expectation was fixed by the caller.
func endpointCase(t *testing.T, r *rig.Rig, opName, router string, a assertionT, tok, atype, cid string, now time.Time, helperRule string) engine.Result {
	res, _ := endpointCaseW(t, r, opName, router, a, tok, atype, cid, now, helperRule, false)
	return res
}

// endpointCaseW additionally returns the expectation of the reference predicate.
// laterRequest: the provider instance has served requests before (part "history-endpoint");
// then acting without a fresh key lookup is not objected to.
func endpointCaseW(t *testing.T, r *rig.Rig, opName, router string, a assertionT, tok, atype, cid string, now time.Time, helperRule string, laterRequest bool) (_ engine.Result, expect want) {
	return endpointCaseX(t, r, defaultEnv, opName, router, a, tok, atype, cid, now, helperRule, laterRequest)
}

// endpointCaseX: r is a provider of issuer env.cfg.issuer; env.base its prepared state.
func endpointCaseX(t *testing.T, r *rig.Rig, env epEnv, opName, router string, a assertionT, tok, atype, cid string, now time.Time, helperRule string, laterRequest bool) (_ engine.Result, expect want) {
	base := env.base // (shadows the package variable inside this function)
	expect, rule := judge(a, tok, eT0, now, env.cfg)
	if helperRule != "" {
		rule = helperRule + ":" + rule
	}
	owner := A
	if a.iss == B {
		owner = B
	}
	art := base.art[owner]
	form := url.Values{}
	path := "/oauth/token"
	switch opName {
	case "code":
		form = url.Values{"grant_type": {"authorization_code"}, "code": {art.code}, "redirect_uri": {redirectOf(owner)}}
	case "refresh":
		form = url.Values{"grant_type": {"refresh_token"}, "refresh_token": {art.refresh}}
	case "devtoken":
		form = url.Values{"grant_type": {"urn:ietf:params:oauth:grant-type:device_code"}, "device_code": {art.deviceCode}}
	case "introspect":
		path, form = "/oauth/introspect", url.Values{"token": {art.access}}
	case "revoke":
		path, form = "/revoke", url.Values{"token": {art.access}, "token_type_hint": {"access_token"}}
	case "device":
		path, form = "/device_authorization", url.Values{"scope": {"openid"}}
	case "bearer":
		form = url.Values{"grant_type": {"urn:ietf:params:oauth:grant-type:jwt-bearer"}, "assertion": {tok}, "scope": {"openid"}}
	}
	if opName != "bearer" {
		form.Set("client_assertion", tok)
		switch atype {
		case "jwt-bearer":
			form.Set("client_assertion_type", atypeJWT)
		case "wrong":
			form.Set("client_assertion_type", "urn:ietf:params:oauth:client-assertion-type:saml2-bearer")
		}
		switch cid {
		case "=iss":
			if a.iss != "" {
				form.Set("client_id", a.iss)
			}
		case "web":
			form.Set("client_id", "web")
		case "absent":
		default: // any other client id, literally
			form.Set("client_id", cid)
		}
	}
	ri := 0
	if router == "legacy" {
		ri = 1
	}
	r.Core.Reset(base.st.Clone())
	var resp *rig.Resp
	pan := engine.Bubble(t, now.Sub(engine.Epoch), func() {
		resp = r.Do(ri, rig.Req("POST", path, form, nil))
	})
	site := "/" + router + "/" + opName
	if pan != "" {
		return engine.Bad(rule, "harness-panic", "C14/harness-panic", pan), expect
	}

	// ---- what did the provider do, and for whom?
	body := resp.JSON()
	var newTok []*refstore.Token
	for id, tk := range r.Core.St.Tokens {
		if !base.known[id] {
			newTok = append(newTok, tk)
		}
	}
	acted, served := false, false
	var actedFor []string
	switch opName {
	case "code", "refresh", "devtoken":
		acted = len(newTok) > 0 || body["access_token"] != nil || body["id_token"] != nil || body["refresh_token"] != nil
		for _, tk := range newTok {
			actedFor = append(actedFor, tk.ClientID)
		}
		served = resp.Status == 200 && body["access_token"] != nil && len(newTok) > 0
	case "bearer":
		acted = len(newTok) > 0 || body["access_token"] != nil || len(r.Core.Calls("CreateAccessToken")) > 0
		for _, tk := range newTok {
			// (refstore files a jwt-bearer token under its subject: tk.ClientID says nothing about
			// the authenticated party; ValidateJWTProfileScopes below receives the issuer)
			if tk.Subject != a.sub {
				return engine.Bad(rule, "acted", "C14/bearer-token-subject-differs-from-signed-sub"+site, fmt.Sprintf("token subject %q, signed sub %q", tk.Subject, a.sub)), expect
			}
		}
		for _, j := range r.Core.Calls("ValidateJWTProfileScopes") {
			actedFor = append(actedFor, j.Args[0])
		}
		served = resp.Status == 200 && body["access_token"] != nil && len(newTok) > 0
	case "introspect":
		calls := r.Core.Calls("SetIntrospectionFromToken")
		acted = len(calls) > 0 || body["active"] == true
		for _, j := range calls {
			actedFor = append(actedFor, j.Args[2])
		}
		served = resp.Status == 200 && body["active"] == true
	case "revoke":
		calls := r.Core.Calls("RevokeToken")
		acted = len(calls) > 0 || r.Core.St.Tokens[art.accessID] == nil
		for _, j := range calls {
			actedFor = append(actedFor, j.Args[2])
		}
		served = resp.Status == 200 && r.Core.St.Tokens[art.accessID] == nil
	case "device":
		calls := r.Core.Calls("StoreDeviceAuthorization")
		acted = len(calls) > 0 || body["device_code"] != nil
		for _, j := range calls {
			actedFor = append(actedFor, j.Args[0])
		}
		served = resp.Status == 200 && body["device_code"] != nil && len(calls) > 0
	}
	outcome := ""
	switch {
	case resp.Panic != "":
		outcome = "panic"
	case served:
		outcome = "served"
	case acted:
		outcome = "acted-not-served"
	default:
		outcome = fmt.Sprintf("refused-%dxx", resp.Status/100)
	}
	desc := func() string {
		return fmt.Sprintf("%s %s on %s router, assertion header=%v payload=%s client_assertion_type=%s client_id=%s now=T0+%s → status %d body %.200s journal %v",
			opName, path, router, headerOf(tok), parseCompact(tok).payload, atype, cid, now.Sub(eT0), resp.Status, resp.Body, r.Core.JournalCopy())
	}

	// ---- soundness: nothing is done on the strength of an assertion the statement rejects
	if expect == mustReject && acted {
		return engine.Bad(rule, outcome, "C14/acted-despite:"+rule+site, "the statement requires rejection ("+rule+") but the provider acted: "+desc()), expect
	}
	if acted {
		for _, id := range actedFor {
			if id != a.iss {
				return engine.Bad(rule, outcome, "C14/acted-for-other-than-iss"+site, fmt.Sprintf("provider acted for %q, assertion names iss %q: %s", id, a.iss, desc())), expect
			}
		}
		for _, j := range r.Core.Calls("GetKeyByIDAndClientID") {
			if j.Args[0] != a.kid || j.Args[1] != a.iss {
				return engine.Bad(rule, outcome, "C14/key-looked-up-for-other-than-iss"+site, fmt.Sprintf("key lookup %v, expected (%s,%s): %s", j.Args, a.kid, a.iss, desc())), expect
			}
		}
		for _, j := range r.Core.Calls("GetClientByClientID") {
			if j.Args[0] != a.iss {
				return engine.Bad(rule, outcome, "C14/client-loaded-other-than-iss"+site, fmt.Sprintf("client lookup %v, iss %q: %s", j.Args, a.iss, desc())), expect
			}
		}
		if len(r.Core.Calls("GetKeyByIDAndClientID")) == 0 && !laterRequest {
			return engine.Bad(rule, outcome, "C14/acted-without-key-lookup"+site, "provider acted without asking for the key of iss: "+desc()), expect
		}
	}
	// ---- completeness: the canonical valid assertion of an eligible client is honoured
	// (with a tolerant subject check and sub != iss the operation itself is left open)
	if expect == mustAccept && atype == "jwt-bearer" && (cid == "absent" || cid == "=iss") && eligible(opName, a.iss) && a.sub == a.iss {
		if helperRule == "" {
			rule = "valid-assertion-of-eligible-client"
		}
		if !served && helperRule != "" {
			return engine.Bad(rule, outcome, "C14/helper-made-assertion-not-honoured"+site, "assertion made by the library's own helper, all conditions hold, client registered for the operation, but it was not served: "+desc()), expect
		}
		if !served {
			return engine.Bad(rule, outcome, "C14/valid-assertion-not-honoured"+site, "all conditions hold, the client is registered for the operation, but it was not served: "+desc()), expect
		}
		return engine.OK(rule, outcome), expect
	}
	if expect == mustAccept {
		rule = "valid-assertion-operation-left-open"
		if helperRule != "" {
			rule = helperRule + ":operation-left-open"
		}
	}
	return engine.OK(rule, outcome), expect
}

// eligible: the client kinds for which the operation must succeed once authenticated.
// (A keyed client of another auth method at introspection, a keyed non-client at the
// jwt-bearer grant etc. are left open — DESIGN §1.6 C05.)
func eligible(opName, iss string) bool {
	switch opName {
	case "bearer":
		return iss == A || iss == B || iss == SVC
	default:
		return iss == A || iss == B
	}
}

var _ = strings.Join
