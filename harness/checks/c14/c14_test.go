// C14 — JWT assertions and request objects count only when signed by the named client.
//
// Engine E1 (bounded-exhaustive product / deviation enumeration), eight parts:
//
//	verify   op.VerifyJWTAssertion and op.ClientJWTAuth directly (default / custom SubjectCheck /
//	         KeySet verifier)
//	endpoint the same assertions as client_assertion on the token endpoint (code, refresh),
//	         introspection, revocation, device authorization, and as jwt-bearer grant; stock
//	         provider and a provider whose verifier has a subject check tolerating sub != iss
//	reqobj   signed request objects on /authorize (both routers, feature on / off)
//	reqobj-rt  the same with multi-valued outer response types x relation of the object's
//	interop  assertions made by the library's own client helpers, presented to the provider
//	history-verify / history-endpoint / history-reqobj (history_test.go): all sequences of
//	         2 (thorough 3) calls over a forgery alphabet on ONE long-lived verifier / provider,
//	         every call judged by the single-call oracle for its own input alone
//
// Every execution runs on the real code inside a synctest bubble. The oracle is written
// from the property statement; "signed by a key the storage holds for iss" is decided with
// crypto/rsa, crypto/ecdsa and crypto/ed25519 over the harness' own registration table,
// never with go-jose. The tokens are serialised by the harness itself as well.
package c14

import (
	"context"
	"crypto"
	"crypto/ecdsa"
	"crypto/ed25519"
	"crypto/hmac"
	"crypto/rand"
	"crypto/rsa"
	"crypto/sha256"
	"crypto/sha512"
	"crypto/x509"
	"encoding/base64"
	"encoding/json"
	"errors"
	"hash"
	"math/big"
	"os"
	"slices"
	"strings"
	"sync"
	"testing"
	"time"

	jose "github.com/go-jose/go-jose/v4"

	"github.com/zitadel/oidc/v3/pkg/oidc"
	"github.com/zitadel/oidc/v3/pkg/op"

	"verif/harness/engine"
	"verif/harness/rig"
	"verif/harness/rig/keys"
	"verif/harness/rig/refstore"
)

func TestMain(m *testing.M) { engine.Main(m) }

const (
	I        = rig.Issuer             // the provider's issuer
	I2       = "https://other.example" // alternative verifier issuer (part verify)
	tokenURL = rig.Issuer + "/oauth/token"
	A        = "jwt"  // private_key_jwt client with keys jk1..jk6
	B        = "jwtb" // second private_key_jwt client with key bk1
	SVC      = "svc"  // service user with key sk1
	ghost    = "ghost"
	atypeJWT = "urn:ietf:params:oauth:client-assertion-type:jwt-bearer"
	cbA1     = "https://rp.example/cb"
	cbA2     = "https://rp.example/cb2"
	cbB      = "https://rpb.example/cb"
)

// ---------------------------------------------------------------------------
// registration table of the harness (the model's view of "keys the storage holds for X")

// registry: client / service user id -> kid -> key fixture name
var registry = map[string]map[string]string{
	A:     {"jk1": "rsa2", "jk2": "p256b", "jk3": "rsa_pkcs1", "jk4": "ec_sec1", "jk5": "ed1", "jk6": "p384a"},
	B:     {"bk1": "p256c"},
	"api": {"ak1": "rsa3"},
	SVC:   {"sk1": "rsa3"},
}

// registrations of the "reg" dimension (part verify): the default table, A's key jk2 no
// longer on file, and B holding a copy of A's jk2 key under its own kid bk2.
func registrationTable(variant string) map[string]map[string]string {
	out := map[string]map[string]string{}
	for id, ks := range registry {
		out[id] = map[string]string{}
		for kid, name := range ks {
			out[id][kid] = name
		}
	}
	switch variant {
	case "A-without-jk2":
		delete(out[A], "jk2")
	case "B-shares-A.k2":
		out[B]["bk2"] = "p256b"
	}
	return out
}

// applyRegistration rewrites the key tables of cfg to reg.
func applyRegistration(cfg *refstore.Config, reg map[string]map[string]string) {
	for id, ks := range reg {
		cl := cfg.Clients[id]
		if cl == nil {
			cl = cfg.ServiceUsers[id]
		}
		cl.Keys = map[string]*jose.JSONWebKey{}
		for kid, name := range ks {
			cl.Keys[kid] = rig.PubJWK(keys.Get(name), kid)
		}
	}
}

// newConfig is rig.DefaultConfig() plus: more keys and a second redirect URI for "jwt",
// and a second private_key_jwt client "jwtb".
func newConfig() *refstore.Config {
	cfg := rig.DefaultConfig()
	cfg.ATLifetime, cfg.RTLifetime = 6*time.Hour, 12*time.Hour
	a := cfg.Clients[A]
	a.Redirects = []string{cbA1, cbA2}
	// multi-valued response types (part reqobj-rt); B shares the list
	a.RespTypes = append(append([]oidc.ResponseType{}, a.RespTypes...), "code id_token")
	for kid, name := range registry[A] {
		a.Keys[kid] = rig.PubJWK(keys.Get(name), kid)
	}
	cfg.Clients[B] = &refstore.Client{ID: B, Redirects: []string{cbB, "https://rpb.example/cb2"}, AppType: op.ApplicationTypeWeb,
		Method: oidc.AuthMethodPrivateKeyJWT, RespTypes: a.RespTypes, Grants: a.Grants,
		Keys: map[string]*jose.JSONWebKey{"bk1": rig.PubJWK(keys.Get("p256c"), "bk1")}}
	// clients whose ids are near-misses of A's id, each with a key of its own (nearmiss_test.go)
	for _, id := range nmClientIDs {
		cfg.Clients[id] = &refstore.Client{ID: id, Redirects: []string{cbA1, cbA2}, AppType: op.ApplicationTypeWeb,
			Method: oidc.AuthMethodPrivateKeyJWT, RespTypes: a.RespTypes, Grants: a.Grants,
			Keys: map[string]*jose.JSONWebKey{nmKid: rig.PubJWK(keys.Get(nmKeyFixture), nmKid)}}
	}
	// sanity: the storage configuration and the model table must describe the same keys
	for id, ks := range registry {
		cl := cfg.Clients[id]
		if cl == nil {
			cl = cfg.ServiceUsers[id]
		}
		if cl == nil || len(cl.Keys) != len(ks) {
			panic("c14: registry and storage configuration differ for " + id)
		}
		for kid := range ks {
			if cl.Keys[kid] == nil {
				panic("c14: registry and storage configuration differ for " + id + "/" + kid)
			}
		}
	}
	return cfg
}

func newRig(requestObjects bool) *rig.Rig { return newRigIss(requestObjects, I) }

// newRigIss: the provider's issuer is issuer (op.StaticIssuer).
func newRigIss(requestObjects bool, issuer string) *rig.Rig {
	oc := rig.DefaultOPConfig()
	oc.RequestObjectSupported = requestObjects
	oc.DeviceAuthorization.Lifetime = 6 * time.Hour // the prepared device codes must outlive the largest age
	o := rig.Opts{Cfg: newConfig(), OP: oc}
	if issuer != I {
		o.IssuerFn = op.StaticIssuer(issuer)
	}
	return rig.MustNew(o)
}

// tolerantProvider is an application's provider whose JWT profile verifier carries a custom
// SubjectCheck that tolerates every subject (op.SubjectCheck option: delegation). Everything
// else is the stock op.Provider.
type tolerantProvider struct{ *op.Provider }

func (p tolerantProvider) JWTProfileVerifier(ctx context.Context) *op.JWTProfileVerifier {
	return op.NewJWTProfileVerifier(p.Storage(), op.IssuerFromContext(ctx), time.Hour, time.Second,
		op.SubjectCheck(func(*oidc.JWTTokenRequest) error { return nil }))
}

// newRigPV: pv "default" = newRig; pv "tolerant" = both routers rebuilt over a tolerantProvider.
func newRigPV(requestObjects bool, pv string) *rig.Rig { return newRigIssPV(requestObjects, pv, I) }

func newRigIssPV(requestObjects bool, pv, issuer string) *rig.Rig {
	r := newRigIss(requestObjects, issuer)
	if pv == "tolerant" {
		tp := tolerantProvider{r.Provider}
		r.H[0] = op.CreateRouter(tp)
		r.H[1] = op.RegisterLegacyServer(op.NewLegacyServer(tp, rig.CopyEndpoints()), op.AuthorizeCallbackHandler(tp), op.WithFallbackLogger(rig.Discard))
	}
	return r
}

// ---------------------------------------------------------------------------
// signers of the alphabet

type signerT struct {
	name string
	key  string // fixture
	alg  string
	mode string // "", "corrupt", "hs-pub", "none"
}

var signers = map[string]signerT{
	"A.k2/ES256":      {key: "p256b", alg: "ES256"},
	"A.k1/RS256":      {key: "rsa2", alg: "RS256"},
	"A.k1/PS256":      {key: "rsa2", alg: "PS256"},
	"B.k/ES256":       {key: "p256c", alg: "ES256"},
	"svc.k/RS256":     {key: "rsa3", alg: "RS256"},
	"op-key/ES256":    {key: "p256a", alg: "ES256"}, // the provider's own signing key: never a client key
	"attacker/RS256":  {key: "rsa4", alg: "RS256"},
	"A.k1/RS384":      {key: "rsa2", alg: "RS384"},
	"A.k1pub/HS256":   {key: "rsa2", alg: "HS256", mode: "hs-pub"},
	"none":            {key: "p256b", alg: "none", mode: "none"},
	"A.k2/ES256-bad":  {key: "p256b", alg: "ES256", mode: "corrupt"},
	"A.ed/EdDSA":      {key: "ed1", alg: "EdDSA"},
	"A.k3/RS256":      {key: "rsa_pkcs1", alg: "RS256"},
	"A.k4/ES256":      {key: "ec_sec1", alg: "ES256"},
	"A.p384/ES384":    {key: "p384a", alg: "ES384"},
	"svc.k/PS256":     {key: "rsa3", alg: "PS256"},
	"N.k/RS256":       {key: nmKeyFixture, alg: "RS256"}, // the key of every near-miss-named client
}

func b64(b []byte) string { return base64.RawURLEncoding.EncodeToString(b) }

func hashFor(alg string) (crypto.Hash, hash.Hash) {
	switch alg[2:] {
	case "384":
		return crypto.SHA384, sha512.New384()
	case "512":
		return crypto.SHA512, sha512.New()
	}
	return crypto.SHA256, sha256.New()
}

var sigCache sync.Map

// serialize builds a compact JWS by hand: header {"alg","kid"?,"typ"}, payload, signature
// computed with the standard library. kid "" leaves the header member out.
func serialize(sname, kid string, payload []byte) string {
	s, ok := signers[sname]
	if !ok {
		panic("c14: no signer " + sname)
	}
	ck := sname + "|" + kid + "|" + string(payload)
	if v, ok := sigCache.Load(ck); ok {
		return v.(string)
	}
	hdr := map[string]any{"alg": s.alg, "typ": "JWT"}
	if kid != "" {
		hdr["kid"] = kid
	}
	hb, _ := json.Marshal(hdr)
	input := b64(hb) + "." + b64(payload)
	var sig []byte
	switch {
	case s.mode == "none":
		sig = nil
	case s.mode == "hs-pub":
		der, err := x509.MarshalPKIXPublicKey(keys.Get(s.key).Pub)
		if err != nil {
			panic(err)
		}
		m := hmac.New(sha256.New, der)
		m.Write([]byte(input))
		sig = m.Sum(nil)
	default:
		sig = rawSign(keys.Get(s.key).Priv, s.alg, []byte(input))
		if s.mode == "corrupt" {
			sig[len(sig)-1] ^= 0x01
			sig[0] ^= 0x80
		}
	}
	tok := input + "." + b64(sig)
	sigCache.Store(ck, tok)
	return tok
}

func rawSign(priv crypto.Signer, alg string, input []byte) []byte {
	if alg == "EdDSA" {
		return ed25519.Sign(priv.(ed25519.PrivateKey), input)
	}
	ch, h := hashFor(alg)
	h.Write(input)
	digest := h.Sum(nil)
	switch alg[:2] {
	case "RS":
		sig, err := rsa.SignPKCS1v15(nil, priv.(*rsa.PrivateKey), ch, digest)
		if err != nil {
			panic(err)
		}
		return sig
	case "PS":
		sig, err := rsa.SignPSS(rand.Reader, priv.(*rsa.PrivateKey), ch, digest, &rsa.PSSOptions{SaltLength: rsa.PSSSaltLengthEqualsHash})
		if err != nil {
			panic(err)
		}
		return sig
	case "ES":
		k := priv.(*ecdsa.PrivateKey)
		r, s, err := ecdsa.Sign(rand.Reader, k, digest)
		if err != nil {
			panic(err)
		}
		n := (k.Curve.Params().BitSize + 7) / 8
		out := make([]byte, 2*n)
		r.FillBytes(out[:n])
		s.FillBytes(out[n:])
		return out
	}
	panic("c14: cannot sign with " + alg)
}

// ---------------------------------------------------------------------------
// independent signature oracle (standard library only)

type parsedJWS struct {
	alg, kid string
	input    []byte
	sig      []byte
	payload  []byte
	ok       bool
}

func parseCompact(tok string) parsedJWS {
	parts := strings.Split(tok, ".")
	if len(parts) != 3 {
		return parsedJWS{}
	}
	hb, err1 := base64.RawURLEncoding.DecodeString(parts[0])
	pb, err2 := base64.RawURLEncoding.DecodeString(parts[1])
	sb, err3 := base64.RawURLEncoding.DecodeString(parts[2])
	if err1 != nil || err2 != nil || err3 != nil {
		return parsedJWS{}
	}
	var h struct {
		Alg string `json:"alg"`
		Kid string `json:"kid"`
	}
	if json.Unmarshal(hb, &h) != nil {
		return parsedJWS{}
	}
	return parsedJWS{alg: h.Alg, kid: h.Kid, input: []byte(parts[0] + "." + parts[1]), sig: sb, payload: pb, ok: true}
}

// verifies reports whether p carries a valid asymmetric signature of alg p.alg under pub.
func verifies(p parsedJWS, pub crypto.PublicKey) bool {
	if !p.ok || len(p.sig) == 0 {
		return false
	}
	switch p.alg {
	case "EdDSA":
		k, ok := pub.(ed25519.PublicKey)
		return ok && ed25519.Verify(k, p.input, p.sig)
	case "RS256", "RS384", "RS512", "PS256", "PS384", "PS512":
		k, ok := pub.(*rsa.PublicKey)
		if !ok {
			return false
		}
		ch, h := hashFor(p.alg)
		h.Write(p.input)
		d := h.Sum(nil)
		if p.alg[0] == 'R' {
			return rsa.VerifyPKCS1v15(k, ch, d, p.sig) == nil
		}
		return rsa.VerifyPSS(k, ch, d, p.sig, &rsa.PSSOptions{SaltLength: rsa.PSSSaltLengthAuto}) == nil
	case "ES256", "ES384", "ES512":
		k, ok := pub.(*ecdsa.PublicKey)
		if !ok {
			return false
		}
		want := map[string]int{"ES256": 256, "ES384": 384, "ES512": 521}[p.alg]
		if k.Curve.Params().BitSize != want {
			return false
		}
		n := (want + 7) / 8
		if len(p.sig) != 2*n {
			return false
		}
		ch, h := hashFor(p.alg)
		_ = ch
		h.Write(p.input)
		r := new(big.Int).SetBytes(p.sig[:n])
		s := new(big.Int).SetBytes(p.sig[n:])
		return ecdsa.Verify(k, h.Sum(nil), r, s)
	}
	return false // none, HS*: not a signature of a registered key
}

// signedFor decides the signature clause for issuer id: any = some key the storage holds
// for id verifies the token; named = the key the header's kid names does.
func signedFor(tok, id string) (anyKey, named bool) { return signedForMemo(vcfg{}, tok, id) }

func signedForReg(reg map[string]map[string]string, tok, id string) (anyKey, named bool) {
	p := parseCompact(tok)
	for kid, name := range reg[id] {
		if verifies(p, keys.Get(name).Pub) {
			anyKey = true
			if kid == p.kid {
				named = true
			}
		}
	}
	return
}

var listedAlgs = map[string]bool{"RS256": true, "ES256": true, "PS256": true}

// ---------------------------------------------------------------------------
// assertions

type want int

const (
	either want = iota
	mustReject
	mustAccept
)

type assertionT struct {
	iss, sub  string // "" = claim absent
	aud       string // alphabet name
	iat, exp  string // seconds relative to T0, or "absent"
	extra     string
	kid       string
	signer    string
	subPolicy string // "iss" (default) | "iss-or-u1" (custom check) | "any" (custom check tolerating every subject)
}

func relSeconds(s string) (int64, bool) {
	if s == "absent" {
		return 0, false
	}
	var n int64
	neg := false
	for i, c := range s {
		if i == 0 && (c == '-' || c == '+') {
			neg = c == '-'
			continue
		}
		n = n*10 + int64(c-'0')
	}
	if neg {
		n = -n
	}
	return n, true
}

func audValue(name, vIssuer string) (any, bool, bool) { // value, present, contains vIssuer
	v, present := audRaw(name, vIssuer)
	if !present {
		return nil, false, false
	}
	// "contains the provider's issuer": some member IS the issuer string, character by character
	has := false
	switch x := v.(type) {
	case string:
		has = x == vIssuer
	case []string:
		has = slices.Contains(x, vIssuer)
	}
	return v, true, has
}

func audRaw(name, vIssuer string) (any, bool) {
	const x = "https://x.example"
	switch name {
	case "[I]":
		return []string{I}, true
	case "[x]":
		return []string{x}, true
	case "[x,I]":
		return []string{x, I}, true
	case "I-string":
		return I, true
	case "[]":
		return []string{}, true
	case "absent":
		return nil, false
	case "[tokenURL]":
		return []string{tokenURL}, true
	case "[I2]":
		return []string{I2}, true
	case "[I/]":
		return []string{I + "/"}, true
	case "[V]": // the issuer of the verifier / provider the assertion is presented to
		return []string{vIssuer}, true
	}
	// "nm|<form>|<kind>": the near-miss <kind> of the verifier's issuer (nearmiss_test.go) in one of
	// the JSON shapes an audience can take
	if p := strings.Split(name, "|"); len(p) == 3 && p[0] == "nm" {
		v := nearMiss(vIssuer, p[2])
		switch p[1] {
		case "str":
			return v, true
		case "arr":
			return []string{v}, true
		case "2nd":
			return []string{x, v}, true
		case "1st":
			return []string{v, x}, true
		case "+V": // the near-miss next to the genuine issuer: the audience DOES contain the issuer
			return []string{v, vIssuer}, true
		case "V+":
			return []string{vIssuer, v}, true
		}
	}
	panic("c14: aud " + name)
}

func (a assertionT) payload(t0 time.Time, vIssuer string) []byte {
	m := map[string]any{}
	if a.iss != "" {
		m["iss"] = a.iss
	}
	if a.sub != "" {
		m["sub"] = a.sub
	}
	if v, ok, _ := audValue(a.aud, vIssuer); ok {
		m["aud"] = v
	}
	if n, ok := relSeconds(a.iat); ok {
		m["iat"] = t0.Unix() + n
	}
	if n, ok := relSeconds(a.exp); ok {
		m["exp"] = t0.Unix() + n
	}
	switch a.extra {
	case "scope":
		m["scope"] = "openid custom admin"
	case "nested":
		m["urn:x:claims"] = map[string]any{"a": []any{1, map[string]any{"b": nil}}, "iss": "web"}
	case "client_id":
		m["client_id"] = "web"
		m["azp"] = "web"
	}
	b, err := json.Marshal(m)
	if err != nil {
		panic(err)
	}
	return b
}

type vcfg struct {
	issuer         string
	maxAge, offset time.Duration
	reg            map[string]map[string]string // registration table in force (nil: registry)
	regName        string                       // names reg (memo key of the signature clause); "" with reg == nil
}

// signedMemo remembers the verdict of the signature clause: a pure function of (registration
// table, issuer, token), asked for again for every operation / router / verifier kind / clock
// setting the same token is presented under.
var signedMemo sync.Map // signedKey -> [2]bool

type signedKey struct{ reg, id, tok string }

func signedForMemo(cfg vcfg, tok, id string) (anyKey, named bool) {
	reg := cfg.reg
	if reg == nil {
		reg = registry
	} else if cfg.regName == "" {
		return signedForReg(reg, tok, id) // unnamed table: not memoised
	}
	k := signedKey{cfg.regName, id, tok}
	if v, ok := signedMemo.Load(k); ok {
		b := v.([2]bool)
		return b[0], b[1]
	}
	anyKey, named = signedForReg(reg, tok, id)
	signedMemo.Store(k, [2]bool{anyKey, named})
	return
}

// judge is the reference predicate for one assertion presented at instant now to a
// verifier configured with cfg. It returns the expectation and the deciding clause.
//
// Statement: accepted only if signed with a key the storage holds for iss, aud contains
// the provider's issuer, unexpired, issued neither in the future nor more than the allowed
// age ago, sub = iss (unless a custom subject check is configured).
// Time comparisons: exp <= now-1s must be rejected whatever the offset, exp >= now+offset+1s is
// unexpired under every reading; iat > now+offset+1s is "in the future", iat <= now is not; the
// max-age bound is judged Either within offset+1s on both sides (DESIGN §1.6, same reading as C01:
// the skew allowance is applied to exp in the strict and to iat in the lenient direction).
func judge(a assertionT, tok string, t0, now time.Time, cfg vcfg) (want, string) {
	band := cfg.offset + time.Second
	soft := ""
	// signature clause
	anyKey, named := signedForMemo(cfg, tok, a.iss)
	if !anyKey {
		return mustReject, "not-signed-by-a-key-held-for-iss"
	}
	p := parseCompact(tok)
	if !named {
		soft = "signed-by-iss-key-but-kid-names-none"
	} else if !listedAlgs[p.alg] {
		soft = "alg-not-in-accepted-list"
	}
	if _, _, has := audValue(a.aud, cfg.issuer); !has {
		return mustReject, "aud-lacks-provider-issuer"
	}
	if n, ok := relSeconds(a.exp); !ok {
		return mustReject, "exp-absent"
	} else {
		// "unexpired": an assertion whose exp lies a whole second or more behind the clock is expired
		// under every reading, WHATEVER the offset (the offset is an allowance for skew; nothing in
		// the statement lets it prolong a lifetime); from now+offset+1s on expiry cannot be the
		// reason to refuse; in between (whole-second claims, rounding, the skew allowance applied
		// in the strict direction) Either.
		d := t0.Add(time.Duration(n) * time.Second).Sub(now)
		switch {
		case d <= -band:
			return mustReject, "expired"
		case d <= -time.Second:
			return mustReject, "expired-less-than-offset-ago"
		case d < band:
			soft = "inside-clock-band"
		}
	}
	if n, ok := relSeconds(a.iat); !ok {
		if cfg.maxAge > 0 {
			return mustReject, "iat-absent-with-max-age"
		}
		soft = "iat-absent-no-max-age"
	} else {
		e := t0.Add(time.Duration(n) * time.Second).Sub(now)
		switch {
		case e > band:
			return mustReject, "issued-in-the-future"
		case e > 0:
			soft = "inside-clock-band" // iat <= now is not "in the future" under any reading
		}
		if cfg.maxAge > 0 {
			switch {
			case e < -cfg.maxAge-band:
				return mustReject, "older-than-max-age"
			case e <= -cfg.maxAge+band:
				soft = "inside-clock-band"
			}
		}
	}
	switch a.subPolicy {
	case "any": // a custom subject check that tolerates every subject (delegation)
	case "iss-or-u1":
		if a.sub != a.iss && a.sub != "u1" {
			return mustReject, "custom-subject-check-fails"
		}
	default:
		if a.sub != a.iss {
			return mustReject, "sub-differs-from-iss"
		}
	}
	if soft != "" {
		return either, soft
	}
	return mustAccept, "all-conditions-hold"
}

func errClass(err error) string {
	for _, e := range []error{oidc.ErrAudience, oidc.ErrExpired, oidc.ErrIatMissing, oidc.ErrIatInFuture, oidc.ErrIatToOld,
		oidc.ErrSignatureUnsupportedAlg, oidc.ErrSignatureInvalidPayload, oidc.ErrSignatureInvalid, oidc.ErrSignatureMissing, oidc.ErrParse} {
		if errors.Is(err, e) {
			return e.Error()
		}
	}
	if strings.Contains(err.Error(), "delegation not allowed") || strings.Contains(err.Error(), "custom subject") {
		return "subject"
	}
	return "other"
}

// issKeySet is the caller-supplied oidc.KeySet of the NewJWTProfileVerifierKeySet variant:
// an ordinary integrator's key set that resolves (iss, kid) in the same registration table.
type issKeySet struct {
	calls *[]string
	reg   map[string]map[string]string
}

func (k issKeySet) VerifySignature(ctx context.Context, jws *jose.JSONWebSignature) ([]byte, error) {
	var c struct {
		Iss string `json:"iss"`
	}
	if err := json.Unmarshal(jws.UnsafePayloadWithoutVerification(), &c); err != nil {
		return nil, err
	}
	if len(jws.Signatures) != 1 {
		return nil, errors.New("one signature expected")
	}
	kid := jws.Signatures[0].Header.KeyID
	if k.calls != nil {
		*k.calls = append(*k.calls, kid+"|"+c.Iss)
	}
	reg := k.reg
	if reg == nil {
		reg = registry
	}
	name, ok := reg[c.Iss][kid]
	if !ok {
		return nil, errors.New("no such key")
	}
	return jws.Verify(keys.Get(name).PubForJose())
}

// ---------------------------------------------------------------------------

func TestCheck(t *testing.T) {
	c := engine.Start(t, "C14")
	c.SetRule("E1: per part, the full product over the interacting dimension groups crossed with every <=k deviations of the remaining dimensions; each vector is one execution of the real code (op.VerifyJWTAssertion, the HTTP handlers of both routers, the client helpers) in a synctest bubble, judged by a three-valued reference predicate written from the statement; signatures decided independently with crypto/rsa, crypto/ecdsa, crypto/ed25519 over the harness' own registration table; the history parts take the full product of 2 (thorough 3) letters x verifier kind / router, one fresh instance per sequence, rule = expectation class of each call (A must accept, R must reject, E either), outcome = what each call did; distinct = (part, oracle rule, observed outcome class)")
	c.Assume("Go standard library signature primitives are correct (they are the signature oracle)",
		"refstore is the storage (keys looked up by (kid, client or service user id); part of the trusted base)",
		"clock band: exp in (now-1s, now+offset+1s), iat in (now, now+offset+1s], iat within offset+1s of now-maxAge are judged Either (DESIGN §1.6); exp <= now-1s must be refused whatever the offset",
		"a signature by a key of iss under a kid that does not name it, an algorithm outside RS256/ES256/PS256, an absent iat without max age: Either",
		"histories: every call of a sequence happens at the same instant and against the same storage content; only state held by the verifier / provider instance itself is carried from call to call",
		"request objects: absent client_id / response_type member in the object: Either; scope is not required to be overridden when the plain scope lacks openid")
	walls := map[string]float64{}
	for _, p := range []struct {
		name string
		run  func(*testing.T, *engine.Check)
	}{ // cheapest first: should the deadline strike on a crowded machine, the small parts are complete
		{"nearmiss-verify", runNearMissVerify}, {"nearmiss-reqobj", runNearMissReqObj}, {"nearmiss-endpoint", runNearMissEndpoint},
		{"interop", runInterop}, {"history-reqobj", runHistoryReqObj}, {"reqobj-rt", runReqObjRT}, {"history-verify", runHistoryVerify}, {"history-endpoint", runHistoryEndpoint},
		{"window-verify", runWindowVerify}, {"window-endpoint", runWindowEndpoint},
		{"reqobj", runReqObj}, {"endpoint", runEndpoint}, {"verify", runVerify}} {
		// development aid: C14_PARTS=a,b runs only those parts (and marks the run as capped)
		if only := os.Getenv("C14_PARTS"); only != "" && !slices.Contains(strings.Split(only, ","), p.name) {
			c.Cap("part " + p.name + " not run (C14_PARTS)")
			continue
		}
		t0 := time.Now()
		p.run(t, c)
		walls[p.name] = time.Since(t0).Seconds()
	}
	c.Extra("part_wall_s", walls)
	c.Finish()
}
