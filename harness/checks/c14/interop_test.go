package c14

import (
	"context"
	"encoding/json"
	"fmt"
	"slices"
	"testing"
	"time"

	"github.com/zitadel/oidc/v3/pkg/client"
	"github.com/zitadel/oidc/v3/pkg/oidc"
	"github.com/zitadel/oidc/v3/pkg/op"

	"verif/harness/engine"
	"verif/harness/rig"
	"verif/harness/rig/keys"
)

// part "interop": assertions produced by the library's own client helpers must be
// accepted by the provider when the algorithm is in its accepted list.

var interopKeys = map[string]struct{ fixture, id, kid string }{
	"ec-pkcs8":   {"p256b", A, "jk2"},
	"rsa-pkcs8":  {"rsa2", A, "jk1"},
	"rsa-pkcs1":  {"rsa_pkcs1", A, "jk3"},
	"ec-sec1":    {"ec_sec1", A, "jk4"},
	"ed25519":    {"ed1", A, "jk5"},
	"ec-p384":    {"p384a", A, "jk6"},
	"svc-rsa":    {"rsa3", SVC, "sk1"},
	"B-ec-pkcs8": {"p256c", B, "bk1"},
}

var interopSpace = engine.Space{
	engine.D("helper", "signed-assertion", "generate", "filedata"),
	engine.D("key", "ec-pkcs8", "rsa-pkcs8", "rsa-pkcs1", "ec-sec1", "ed25519", "ec-p384", "svc-rsa", "B-ec-pkcs8"),
	engine.D("use", "direct", "direct-keyset", "code", "refresh", "introspect", "revoke", "device", "bearer", "devtoken"),
	engine.D("router", "provider", "legacy"),
	engine.D("aud", "[I]", "[x,I]"),
	engine.D("age", "0s", "30m", "59m50s", "1h0m10s"),
	engine.D("lifetime", "1h", "30s"),
	engine.D("opt", "none", "custom-claim", "delegated-sub"),
}

func runInterop(t *testing.T, c *engine.Check) {
	buildBase(t)
	if base.err != "" {
		c.Internal(base.err)
		return
	}
	sp := interopSpace
	c.RunE1(engine.E1{
		Part:  "interop",
		Space: sp,
		K:     len(sp),
		Skip: func(v engine.Vec) bool {
			g := func(n string) string { return sp.Get(v, n) }
			direct := g("use") == "direct" || g("use") == "direct-keyset"
			return (direct && g("router") != "provider") ||
				(g("helper") != "signed-assertion" && g("lifetime") != "1h") || // only SignedJWTProfileAssertion takes a lifetime
				(g("helper") == "signed-assertion" && g("opt") != "none") // it takes no options
		},
		NewWorker: func(int) func(engine.Vec) engine.Result {
			return func(v engine.Vec) engine.Result {
				g := func(n string) string { return sp.Get(v, n) }
				return interopCase(t, newRig(true), g)
			}
		},
	})
}

func interopCase(t *testing.T, r *rig.Rig, g func(string) string) engine.Result {
	k := interopKeys[g("key")]
	pem := keys.Get(k.fixture).PEM
	age, lifetime := mustDur(g("age")), mustDur(g("lifetime"))
	aud := []string{I}
	if g("aud") == "[x,I]" {
		aud = []string{"https://x.example", I}
	}
	var opts []oidc.AssertionOption
	sub := k.id
	switch g("opt") {
	case "custom-claim":
		opts = append(opts, oidc.JWTProfileCustomClaim("urn:x:tenant", map[string]any{"id": 7}))
	case "delegated-sub":
		opts = append(opts, oidc.JWTProfileDelegatedSubject("u1"))
		sub = "u1"
	}
	// ---- the helper makes the assertion at eT0-age (+100 ms); it is presented at eT0+250 ms
	var tok string
	var herr error
	pan := engine.Bubble(t, eT0.Add(-age).Add(100*time.Millisecond).Sub(engine.Epoch), func() {
		switch g("helper") {
		case "signed-assertion":
			signer, err := client.NewSignerFromPrivateKeyByte(pem, k.kid)
			if err != nil {
				herr = err
				return
			}
			tok, herr = client.SignedJWTProfileAssertion(k.id, aud, lifetime, signer)
		case "generate":
			tok, herr = oidc.GenerateJWTProfileToken(oidc.NewJWTProfileAssertion(k.id, k.kid, aud, pem, opts...))
		case "filedata":
			data, _ := json.Marshal(map[string]string{"type": "serviceaccount", "keyId": k.kid, "key": string(pem), "userId": k.id})
			tok, herr = oidc.NewJWTProfileAssertionStringFromFileData(data, aud, opts...)
		}
	})
	hrule := "helper-made"
	if pan != "" {
		return engine.OK(hrule+":helper-panicked", "helper-panic") // C09's business; no assertion was produced
	}
	if herr != nil || tok == "" {
		// no assertion was produced: nothing for the provider to accept
		return engine.OK(hrule+":helper-cannot-use-key", "helper-error:"+g("key"))
	}
	// ---- the assertion must be what was asked for, signed with the given key
	p := parseCompact(tok)
	var claims struct {
		Iss string        `json:"iss"`
		Sub string        `json:"sub"`
		Aud oidc.Audience `json:"aud"`
		Iat int64         `json:"iat"`
		Exp int64         `json:"exp"`
	}
	if !p.ok || json.Unmarshal(p.payload, &claims) != nil {
		return engine.Bad(hrule, "helper-output-unparsable", "C14/helper-assertion-unparsable/"+g("helper"), "helper output is not a compact JWS with a JSON payload: "+tok)
	}
	relIat, relExp := -int64(age/time.Second), -int64(age/time.Second)+int64(lifetime/time.Second)
	if !verifies(p, keys.Get(k.fixture).Pub) {
		// such an assertion cannot be accepted by any provider that honours the first sentence of the statement
		return engine.Bad(hrule, "helper-output-not-signed", "C14/helper-assertion-not-signed-by-given-key/"+g("helper"), fmt.Sprintf("helper output (alg %s) does not verify under the given key %s", p.alg, k.fixture))
	}
	differs := claims.Iss != k.id || claims.Sub != sub || !slices.Equal([]string(claims.Aud), aud) || claims.Iat != eT0.Unix()+relIat || claims.Exp != eT0.Unix()+relExp || p.kid != k.kid
	unlisted := !listedAlgs[p.alg] && g("key") != "ed25519"
	a := assertionT{iss: k.id, sub: sub, aud: g("aud"), iat: fmt.Sprint(relIat), exp: fmt.Sprint(relExp), kid: k.kid, signer: "helper", subPolicy: "iss"}
	now := eT0.Add(250 * time.Millisecond)
	use := g("use")
	if differs || unlisted {
		// the helper did not produce what it was asked for (claims, kid) or chose an algorithm
		// the provider does not list for an RSA / P-256 key: only completeness is judged —
		// what was asked for must still be accepted
		use = "direct"
	}
	switch use {
	case "direct", "direct-keyset":
		expect, rule := judge(a, tok, eT0, now, providerCfg)
		if unlisted && expect == either {
			expect = mustAccept
		}
		if differs && expect == mustReject {
			expect = either
		}
		// The helper was given the key id under which the storage holds this very key for the
		// client. If its output names no (or another) key id, the provider cannot find the key;
		// what was asked for satisfies the statement, so the helper's output must be accepted.
		// (RSA / P-256 keys only: for the others the algorithm is outside the accepted list.)
		if p.kid != k.kid && expect == either && rule == "signed-by-iss-key-but-kid-names-none" && registry[k.id][k.kid] == k.fixture {
			switch g("key") {
			case "ec-pkcs8", "rsa-pkcs8", "rsa-pkcs1", "ec-sec1", "svc-rsa", "B-ec-pkcs8":
				expect = mustAccept
			}
		}
		rule = hrule + ":" + rule
		if differs || unlisted {
			rule = hrule + ":output-not-as-asked"
		}
		ver := op.NewJWTProfileVerifier(r.Storage, I, providerCfg.maxAge, providerCfg.offset)
		if use == "direct-keyset" {
			ver = op.NewJWTProfileVerifierKeySet(issKeySet{}, I, providerCfg.maxAge, providerCfg.offset)
		}
		var req *oidc.JWTTokenRequest
		var err error
		pan := engine.Bubble(t, now.Sub(engine.Epoch), func() {
			req, err = op.VerifyJWTAssertion(context.Background(), tok, ver)
		})
		site := "/" + use
		outcome := "accepted"
		switch {
		case pan != "":
			outcome = "panic"
		case err != nil:
			outcome = "rejected:" + errClass(err)
		}
		desc := fmt.Sprintf("%s with %s key, header=%v payload=%s presented %s after it was made", g("helper"), g("key"), headerOf(tok), p.payload, age)
		switch {
		case expect == mustReject && outcome == "accepted":
			return engine.Bad(rule, outcome, "C14/accepted-despite:"+rule+site, "the statement requires rejection but the assertion was accepted: "+desc)
		case expect == mustAccept && outcome != "accepted":
			return engine.Bad(rule, outcome, "C14/helper-made-assertion-not-honoured"+site, fmt.Sprintf("assertion made by the library's own helper rejected (%v %s): %s", err, pan, desc))
		case outcome == "accepted" && !differs && (req == nil || req.Issuer != k.id):
			return engine.Bad(rule, outcome, "C14/identity-differs-from-iss"+site, "returned issuer differs from iss: "+desc)
		}
		return engine.OK(rule, outcome)
	}
	return endpointCase(t, r, g("use"), g("router"), a, tok, "jwt-bearer", "absent", now, hrule)
}
