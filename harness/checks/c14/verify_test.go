package c14

import (
	"context"
	"fmt"
	"slices"
	"strings"
	"testing"
	"time"

	"github.com/zitadel/oidc/v3/pkg/oidc"
	"github.com/zitadel/oidc/v3/pkg/op"

	"verif/harness/engine"
	"verif/harness/rig"
)

// part "verify": op.VerifyJWTAssertion called directly.

// vT0 is the whole second "now" sits in; now = vT0 + phase.
var vT0 = engine.Epoch.Add(48 * time.Hour)

var verifySpace = engine.Space{
	engine.D("iss", A, B, SVC, ghost, "absent"),
	engine.D("sub", "=iss", "u1", "absent", "peer"),
	engine.D("aud", "[I]", "[x]", "[x,I]", "I-string", "[]", "absent", "[tokenURL]", "[I2]", "[I/]"),
	engine.D("kid", "jk2", "jk1", "bk1", "sk1", "zz", "absent", "bk2"),
	engine.D("signer", "A.k2/ES256", "A.k1/RS256", "A.k1/PS256", "B.k/ES256", "svc.k/RS256", "op-key/ES256", "attacker/RS256",
		"A.k1/RS384", "A.k1pub/HS256", "none", "A.k2/ES256-bad", "A.ed/EdDSA"),
	engine.D("variant", "default", "custom-subject", "keyset"),
	engine.D("iat", "-10", "absent", "0", "1", "2", "3", "6", "7", "8", "3600", "-590", "-600", "-601", "-608", "-3590", "-3599", "-3600", "-3601", "-3603", "-3608", "-7200"),
	engine.D("exp", "3600", "absent", "-3600", "-8", "-7", "-3", "-2", "-1", "0", "1", "2", "3", "6", "7", "8"),
	engine.D("offset", "1s", "0s", "5s"),
	engine.D("maxAge", "3600s", "0s", "600s"),
	engine.D("phase", "250ms", "750ms"),
	engine.D("vIssuer", "I", "I2"),
	engine.D("extra", "none", "scope", "nested", "client_id"),
	engine.D("reg", "default", "A-without-jk2", "B-shares-A.k2"),
	engine.D("entry", "VerifyJWTAssertion", "ClientJWTAuth"),
}

// profileOf is a ClientJWTProfile (what op.ClientJWTAuth takes) handing out one verifier.
type profileOf struct{ v *op.JWTProfileVerifier }

func (p profileOf) JWTProfileVerifier(context.Context) *op.JWTProfileVerifier { return p.v }

func peerOf(iss string) string {
	if iss == A {
		return B
	}
	return A
}

func decodeAssertion(g func(string) string) assertionT {
	a := assertionT{iss: g("iss"), aud: g("aud"), iat: g("iat"), exp: g("exp"), extra: g("extra"), kid: g("kid"), signer: g("signer"), subPolicy: "iss"}
	if a.iss == "absent" {
		a.iss = ""
	}
	if a.kid == "absent" {
		a.kid = ""
	}
	switch g("sub") {
	case "=iss":
		a.sub = a.iss
	case "u1":
		a.sub = "u1"
	case "absent":
		a.sub = ""
	case "peer":
		a.sub = peerOf(a.iss)
	}
	return a
}

func mustDur(s string) time.Duration {
	d, err := time.ParseDuration(s)
	if err != nil {
		panic(err)
	}
	return d
}

func customSubject(r *oidc.JWTTokenRequest) error {
	if r.Subject == r.Issuer || r.Subject == "u1" {
		return nil
	}
	return fmt.Errorf("custom subject check: %q may not act for %q", r.Issuer, r.Subject)
}

func sameAud(got []string, name, vIssuer string) bool {
	v, ok, _ := audValue(name, vIssuer)
	if !ok {
		return len(got) == 0
	}
	switch x := v.(type) {
	case string:
		return slices.Equal(got, []string{x})
	case []string:
		return slices.Equal(got, x) || (len(got) == 0 && len(x) == 0)
	}
	return false
}

func runVerify(t *testing.T, c *engine.Check) {
	sp := verifySpace
	c.RunE1(engine.E1{
		Part:  "verify",
		Space: sp,
		Groups: [][]string{
			{"iss", "sub", "aud", "kid", "signer", "variant", "entry"},
			{"iat", "exp", "offset", "maxAge", "phase"},
			{"iss", "kid", "signer", "reg", "variant"},
		},
		Ks: []int{engine.Pick(c, 0, 1), engine.Pick(c, 1, 2), engine.Pick(c, 1, 2)},
		NewWorker: func(int) func(engine.Vec) engine.Result {
			rigs, regs := map[string]*rig.Rig{}, map[string]map[string]map[string]string{}
			for _, variant := range sp[sp.Idx("reg")].Vals {
				cfg := newConfig()
				regs[variant] = registrationTable(variant)
				applyRegistration(cfg, regs[variant])
				rigs[variant] = rig.MustNew(rig.Opts{Cfg: cfg})
			}
			return func(v engine.Vec) engine.Result {
				g := func(n string) string { return sp.Get(v, n) }
				return verifyCase(t, rigs[g("reg")], regs[g("reg")], g)
			}
		},
	})
}

func verifyCase(t *testing.T, r *rig.Rig, reg map[string]map[string]string, g func(string) string) engine.Result {
	a := decodeAssertion(g)
	cfg := vcfg{issuer: I, maxAge: mustDur(g("maxAge")), offset: mustDur(g("offset")), reg: reg, regName: "verify:" + g("reg")}
	if g("vIssuer") == "I2" {
		cfg.issuer = I2
	}
	variant := g("variant")
	if variant == "custom-subject" {
		a.subPolicy = "iss-or-u1"
	}
	tok := serialize(a.signer, a.kid, a.payload(vT0, cfg.issuer))
	now := vT0.Add(mustDur(g("phase")))
	expect, rule := judge(a, tok, vT0, now, cfg)

	var ksCalls []string
	var ver *op.JWTProfileVerifier
	switch variant {
	case "default":
		ver = op.NewJWTProfileVerifier(r.Storage, cfg.issuer, cfg.maxAge, cfg.offset)
	case "custom-subject":
		ver = op.NewJWTProfileVerifier(r.Storage, cfg.issuer, cfg.maxAge, cfg.offset, op.SubjectCheck(customSubject))
	case "keyset":
		ver = op.NewJWTProfileVerifierKeySet(issKeySet{calls: &ksCalls, reg: reg}, cfg.issuer, cfg.maxAge, cfg.offset)
	}
	r.Core.Reset(r.Core.St)
	var obs verifyObs
	entry := g("entry")
	obs.pan = engine.Bubble(t, now.Sub(engine.Epoch), func() {
		switch entry {
		case "VerifyJWTAssertion":
			obs.req, obs.err = op.VerifyJWTAssertion(context.Background(), tok, ver)
		case "ClientJWTAuth": // the authenticated client id is all it returns
			obs.idOnly = true
			obs.id, obs.err = op.ClientJWTAuth(context.Background(), oidc.ClientAssertionParams{ClientAssertion: tok, ClientAssertionType: atypeJWT}, profileOf{ver})
		}
	})
	if entry != "VerifyJWTAssertion" {
		variant = entry + "-" + variant // site of the signature
	}
	if strings.HasSuffix(variant, "keyset") {
		obs.lookups = ksCalls
	} else {
		obs.lookups = keyLookups(r)
	}
	return evalVerify(a, tok, expect, rule, variant, cfg.issuer, obs, false, func() string {
		return fmt.Sprintf("assertion header=%+v payload=%s verifier{issuer=%s maxAge=%s offset=%s %s} now=T0+%s", headerOf(tok), parseCompact(tok).payload, cfg.issuer, cfg.maxAge, cfg.offset, variant, g("phase"))
	})
}

// keyLookups: the (kid|client id) pairs the storage was asked for since the last Reset.
func keyLookups(r *rig.Rig) []string {
	var out []string
	for _, j := range r.Core.Calls("GetKeyByIDAndClientID") {
		out = append(out, strings.Join(j.Args, "|"))
	}
	return out
}

// verifyObs is what one op.VerifyJWTAssertion call did.
type verifyObs struct {
	req     *oidc.JWTTokenRequest
	id      string // idOnly: the entry point returns the authenticated client id instead of the request
	idOnly  bool
	err     error
	pan     string
	lookups []string // "kid|id" of every key lookup made during the call (storage journal or caller's key set)
}

// evalVerify judges ONE VerifyJWTAssertion call against the expectation (expect, rule) the
// reference predicate gave for that assertion alone. It is shared by the single-call part
// "verify" and by every step of the part "history-verify".
// laterCall: the verifier instance has served calls before; then a lookup-free acceptance is
// not objected to (an instance may remember a key it obtained for exactly this (iss, kid)).
func evalVerify(a assertionT, tok string, expect want, rule, variant, vIssuer string, obs verifyObs, laterCall bool, mk func() string) engine.Result {
	req, err, pan := obs.req, obs.err, obs.pan
	site := "/verify-" + variant
	if pan != "" {
		// C09's business; nothing was accepted
		if expect == mustAccept {
			return engine.Bad(rule, "panic", "C14/valid-assertion-rejected"+site+"/panic", "valid assertion made the verifier panic: "+pan)
		}
		return engine.OK(rule, "panic")
	}
	outcome := "accepted"
	if err != nil {
		outcome = "rejected:" + errClass(err)
	}
	if err != nil && expect != mustAccept && req == nil && obs.id == "" {
		return engine.OK(rule, outcome)
	}
	desc := mk()
	switch {
	case expect == mustReject && err == nil:
		return engine.Bad(rule, outcome, "C14/accepted-despite:"+rule+site, "the statement requires rejection ("+rule+") but the assertion was accepted: "+desc)
	case expect == mustAccept && err != nil:
		return engine.Bad(rule, outcome, "C14/valid-assertion-rejected"+site+"/"+errClass(err), fmt.Sprintf("all conditions of the statement hold but the assertion was rejected (%v): %s", err, desc))
	}
	if err != nil {
		if req != nil || obs.id != "" {
			return engine.Bad(rule, outcome, "C14/request-returned-with-error"+site, "a token request / client id was returned together with an error: "+desc)
		}
		return engine.OK(rule, outcome)
	}
	// accepted: the authenticated identity is exactly the issuer, the claims are the signed ones
	if obs.idOnly {
		if obs.id != a.iss {
			return engine.Bad(rule, outcome, "C14/identity-differs-from-iss"+site, fmt.Sprintf("authenticated client id %q, signed iss %q (sub %q): %s", obs.id, a.iss, a.sub, desc))
		}
		req = &oidc.JWTTokenRequest{Issuer: a.iss, Subject: a.sub, Audience: nil}
	}
	switch {
	case req == nil:
		return engine.Bad(rule, outcome, "C14/accepted-without-request"+site, "nil request without error: "+desc)
	case obs.idOnly: // nothing else is returned
	case req.Issuer != a.iss:
		return engine.Bad(rule, outcome, "C14/identity-differs-from-iss"+site, fmt.Sprintf("returned issuer %q, signed iss %q: %s", req.Issuer, a.iss, desc))
	case req.Subject != a.sub:
		return engine.Bad(rule, outcome, "C14/subject-differs-from-signed"+site, fmt.Sprintf("returned subject %q, signed sub %q: %s", req.Subject, a.sub, desc))
	case !sameAud(req.Audience, a.aud, vIssuer):
		return engine.Bad(rule, outcome, "C14/audience-differs-from-signed"+site, fmt.Sprintf("returned audience %v: %s", req.Audience, desc))
	}
	// the key must have been looked up for iss (and for nobody else)
	for _, l := range obs.lookups {
		if l != a.kid+"|"+a.iss {
			return engine.Bad(rule, outcome, "C14/key-looked-up-for-other-than-iss"+site, fmt.Sprintf("key lookup %q, expected %q: %s", l, a.kid+"|"+a.iss, desc))
		}
	}
	if len(obs.lookups) == 0 && !laterCall {
		return engine.Bad(rule, outcome, "C14/accepted-without-key-lookup"+site, "accepted without asking for the key of iss: "+desc)
	}
	return engine.OK(rule, outcome)
}

func headerOf(tok string) map[string]string {
	p := parseCompact(tok)
	return map[string]string{"alg": p.alg, "kid": p.kid}
}
