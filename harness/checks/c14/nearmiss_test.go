package c14

import (
	"context"
	"fmt"
	"net/url"
	"strings"
	"testing"
	"time"
	"unicode"

	"github.com/zitadel/oidc/v3/pkg/oidc"
	"github.com/zitadel/oidc/v3/pkg/op"

	"verif/harness/engine"
	"verif/harness/rig"
)

// Parts "nearmiss-verify", "nearmiss-endpoint", "nearmiss-reqobj".
//
// Every clause of the statement is a comparison of two STRINGS: aud member = provider's issuer,
// iss = the client the key is held for, sub = iss, header kid = registered kid, client_id claim =
// outer client_id, object iss = outer client_id, response_type claim = outer response_type. The
// other parts deviate from the expected string only by values that have nothing in common with
// it ("https://x.example", another client, an unknown id). These parts put, in place of each
// compared string, every NEAR-MISS of the expected value: strings an implementation that
// compares by prefix / suffix / substring / case-insensitively / after trimming or URL
// normalisation would take for the expected one. The oracle is unchanged: a near-miss is a
// different string; it counts exactly like any other wrong value.
//
// The provider's issuer takes three shapes, so that every kind of neighbour exists: a bare host
// ("https://op.example": other host "https://op.example.attacker.test", "https://op.example:8443"),
// host + port ("https://op.example:8": other port ":8443"), host + port + path
// ("https://op.example:8/tenant-a": sibling tenants "/tenant-ab", "/tenant-a/x", "/tenant-b", the
// parent "https://op.example:8").

const (
	Iport = "https://op.example:8"
	Ipath = "https://op.example:8/tenant-a"
)

var nmIssuers = map[string]string{"host": I, "port": Iport, "path": Ipath}

// nmGeneric: near-miss kinds that exist for every string.
var nmGeneric = []string{
	"x+",      // prefix-extended
	"+x",      // suffix-extended, no separator
	"+.x",     // ... after "." (host continues: op.example.attacker.test; file-extension like)
	"+/x",     // ... after "/" (sub-path, sibling tenant below)
	"+:x",     // ... after ":" (a port where there was none)
	"+@x",     // ... after "@" (what was the authority becomes userinfo)
	"+443",    // ... by digits (:8 -> :8443, tenant-a -> tenant-a443)
	"+b",      // ... by a letter (tenant-a -> tenant-ab)
	"+.",      // bare separator appended
	"+/",      // trailing slash
	"+:",      //
	"+?",      // empty query
	"+#",      // empty fragment
	"+space",  // trailing blank
	"space+",  // leading blank
	"+nul",    // trailing NUL
	"-last",   // one character shorter (at the end)
	"-first",  // one character shorter (at the start)
	"last-changed", // same length, last character replaced (sibling: tenant-b, :9)
	"upper",   // case-changed: all upper
	"first-case", // case of the first letter toggled
	"last-case",  // case of the last letter toggled
	"contains",      // the expected value in the middle of another token
	"list-contains", // the expected value as one item of a blank-separated list in ONE string
	"csv-contains",  // ... of a comma-separated list
	"doubled",       // twice, no separator
	"doubled-space", // twice, blank-separated
}

// nmURLKinds: near-miss kinds of an https URL (issuers); each exists for all three issuer shapes.
var nmURLKinds = []string{
	"scheme-http",  // http:// instead of https://
	"host-upper",   // host spelled in upper case (the same URL after normalisation, another string)
	"host+.x",      // the host continues: https://op.example.attacker.test[:8][/tenant-a]
	"port+443",     // the port continues (:8 -> :8443); no port: the default port spelled out (:443)
	"shorter-by-one-component", // last path segment / else the port / else the last host label dropped
	"userinfo",     // https://x@op.example...
	"pct-last",     // last character percent-encoded
	"+/x/..",       // a path that normalises to the expected value
	"www.",         // https://www.op.example...
}

func toggleCase(r rune) rune {
	if unicode.IsUpper(r) {
		return unicode.ToLower(r)
	}
	return unicode.ToUpper(r)
}

// nearMiss returns the near-miss kind of the expected string s. It never returns s.
func nearMiss(s, kind string) string {
	v := nearMissRaw(s, kind)
	if v == s {
		panic(fmt.Sprintf("c14: near-miss %q of %q is the string itself", kind, s))
	}
	return v
}

func nearMissRaw(s, kind string) string {
	n := len(s)
	if n < 2 {
		panic("c14: near-miss of a string shorter than 2")
	}
	switch kind {
	case "x+":
		return "x" + s
	case "+x":
		return s + "x"
	case "+.x":
		return s + ".attacker.test"
	case "+/x":
		return s + "/x"
	case "+:x":
		return s + ":8443"
	case "+@x":
		return s + "@attacker.test"
	case "+443":
		return s + "443"
	case "+b":
		return s + "b"
	case "+.":
		return s + "."
	case "+/":
		return s + "/"
	case "+:":
		return s + ":"
	case "+?":
		return s + "?"
	case "+#":
		return s + "#"
	case "+space":
		return s + " "
	case "space+":
		return " " + s
	case "+nul":
		return s + "\x00"
	case "-last":
		return s[:n-1]
	case "-first":
		return s[1:]
	case "last-changed":
		c := s[n-1]
		switch {
		case c == 'z' || c == 'Z' || c == '9':
			c--
		case c >= 'a' && c < 'z', c >= 'A' && c < 'Z', c >= '0' && c < '9':
			c++
		default:
			c = 'b'
		}
		return s[:n-1] + string(c)
	case "upper":
		return strings.ToUpper(s)
	case "first-case":
		for i, r := range s {
			if unicode.IsLetter(r) {
				return s[:i] + string(toggleCase(r)) + s[i+len(string(r)):]
			}
		}
		panic("c14: no letter in " + s)
	case "last-case":
		rs := []rune(s)
		for i := len(rs) - 1; i >= 0; i-- {
			if unicode.IsLetter(rs[i]) {
				rs[i] = toggleCase(rs[i])
				return string(rs)
			}
		}
		panic("c14: no letter in " + s)
	case "contains":
		return "x" + s + "x"
	case "list-contains":
		return "x " + s + " y"
	case "csv-contains":
		return "x," + s
	case "doubled":
		return s + s
	case "doubled-space":
		return s + " " + s
	case "empty":
		return ""
	}
	// URL kinds
	u, err := url.Parse(s)
	if err != nil || u.Scheme != "https" || u.Host == "" {
		panic("c14: near-miss kind " + kind + " of a non-URL " + s)
	}
	rest := strings.TrimPrefix(s, "https://"+u.Host) // path
	host, port := u.Hostname(), u.Port()
	withPort := func(h, p string) string {
		if p == "" {
			return h
		}
		return h + ":" + p
	}
	switch kind {
	case "scheme-http":
		return "http://" + u.Host + rest
	case "host-upper":
		return "https://" + withPort(strings.ToUpper(host), port) + rest
	case "host+.x":
		return "https://" + withPort(host+".attacker.test", port) + rest
	case "port+443":
		return "https://" + host + ":" + port + "443" + rest
	case "shorter-by-one-component":
		switch {
		case rest != "" && rest != "/":
			return "https://" + u.Host + rest[:strings.LastIndex(rest, "/")]
		case port != "":
			return "https://" + host
		default:
			return "https://" + host[:strings.LastIndex(host, ".")]
		}
	case "userinfo":
		return "https://x@" + u.Host + rest
	case "pct-last":
		return s[:n-1] + fmt.Sprintf("%%%02X", s[n-1])
	case "+/x/..":
		return s + "/x/.."
	case "www.":
		return "https://www." + u.Host + rest
	}
	panic("c14: near-miss kind " + kind)
}

// Registered neighbours. A comparison of client ids that is not an exact one is exploitable by
// whoever legitimately OWNS an id close to the victim's: for every generic near-miss kind the
// storage holds a private_key_jwt client whose id is that near-miss of A's id ("jwtx", "JWT",
// "jw", "jwt.attacker.test", "jwt ", ...; "+b" is client B itself), each with the key N.k under
// the kid nk1 (and A's redirect URIs, so that its own requests are well-formed).
const (
	nmKid        = "nk1"
	nmKeyFixture = "rsa1"
)

var nmClientIDs = func() []string {
	var out []string
	for _, k := range nmGeneric {
		if id := nearMissRaw(A, k); id != B {
			out = append(out, id)
			registry[id] = map[string]string{nmKid: nmKeyFixture}
		}
	}
	return out
}()

// keyOf: the signer and kid of a registered client's (first) key.
func keyOf(id string) (signer, kid string) {
	switch {
	case id == A:
		return "A.k2/ES256", "jk2"
	case id == B:
		return "B.k/ES256", "bk1"
	case registry[id][nmKid] == nmKeyFixture:
		return "N.k/RS256", nmKid
	}
	panic("c14: no key of " + id)
}

func init() {
	// every kind exists (is a string other than the expected one) for every value it is applied to
	for _, s := range []string{A, B, "jk2", "bk1", "code", "code id_token", "id_token token"} {
		for _, k := range nmGeneric {
			nearMiss(s, k)
		}
	}
	for _, s := range nmIssuers {
		for _, k := range append(append([]string{"empty"}, nmGeneric...), nmURLKinds...) {
			nearMiss(s, k)
		}
	}
}

func cross(prefix string, kinds ...[]string) []string {
	var out []string
	for _, ks := range kinds {
		for _, k := range ks {
			out = append(out, prefix+k)
		}
	}
	return out
}

// ---------------------------------------------------------------------------
// assertions

// nmAssertionLetters: "none" (the canonical valid assertion) and, for every compared string of an
// assertion, its near-misses:
//
//	aud|<form>|<kind>  audience = near-miss of the provider's issuer, as a JSON string, as the only
//	                   array member, as second / first member next to an unrelated URL — and, as
//	                   positive control, next to the genuine issuer (+V, V+: must still be accepted)
//	iss|<kind>         iss (and sub with it) = near-miss of client A's id, signed with A's key
//	sub|<kind>         sub = near-miss of iss
//	kid|<kind>         header kid = near-miss of the kid A's key is registered under, A's key
//	kidX|<kind>        the same kid, signed with client B's key
//	kidB|<kind>        iss = A, kid = near-miss of B's kid, B's key
//	issN|<kind>        the genuine assertion of the registered client N whose id is that near-miss
//	                   of A's id (iss = sub = N, N's key): valid — and the identity is N, not A
//	subN|<kind>        iss = N, N's key, sub = A
//	keyN|<kind>        iss = sub = A, signed with N's key under N's kid
func nmAssertionLetters(audForms []string) []string {
	out := []string{"none"}
	for _, f := range audForms {
		out = append(out, cross("aud|"+f+"|", nmGeneric, nmURLKinds, []string{"empty"})...)
	}
	for _, f := range []string{"iss", "sub", "kid", "kidX", "kidB", "issN", "subN", "keyN"} {
		out = append(out, cross(f+"|", nmGeneric)...)
	}
	return out
}

func nmAssertion(letter string) assertionT {
	a := assertionT{iss: A, sub: A, aud: "[V]", iat: "-10", exp: "3600", extra: "none", kid: "jk2", signer: "A.k2/ES256", subPolicy: "iss"}
	p := strings.Split(letter, "|")
	switch p[0] {
	case "none":
	case "aud":
		a.aud = "nm|" + p[1] + "|" + p[2]
	case "iss":
		a.iss = nearMiss(A, p[1])
		a.sub = a.iss
	case "sub":
		a.sub = nearMiss(A, p[1])
	case "kid":
		a.kid = nearMiss("jk2", p[1])
	case "kidX":
		a.kid, a.signer = nearMiss("jk2", p[1]), "B.k/ES256"
	case "kidB":
		a.kid, a.signer = nearMiss("bk1", p[1]), "B.k/ES256"
	case "issN":
		a.iss = nearMiss(A, p[1])
		a.sub = a.iss
		a.signer, a.kid = keyOf(a.iss)
	case "subN":
		a.iss = nearMiss(A, p[1])
		a.signer, a.kid = keyOf(a.iss)
	case "keyN":
		a.signer, a.kid = keyOf(nearMiss(A, p[1]))
	default:
		panic("c14: near-miss letter " + letter)
	}
	return a
}

func applyTimeDev(a *assertionT, g func(string) string) {
	a.iat, a.exp, a.extra = g("iat"), g("exp"), g("extra")
}

func runNearMissVerify(t *testing.T, c *engine.Check) {
	sp := engine.Space{
		engine.D("nm", nmAssertionLetters([]string{"str", "arr", "2nd", "1st", "+V", "V+"})...),
		engine.D("vIssuer", "host", "port", "path"),
		engine.D("variant", "default", "custom-subject", "keyset"),
		engine.D("entry", "VerifyJWTAssertion", "ClientJWTAuth"),
		engine.D("iat", "-10", "absent", "8", "-3610"),
		engine.D("exp", "3600", "absent", "-10"),
		engine.D("extra", "none", "scope", "client_id"),
	}
	c.RunE1(engine.E1{
		Part:   "nearmiss-verify",
		Space:  sp,
		Groups: [][]string{{"nm", "vIssuer", "variant", "entry"}},
		K:      engine.Pick(c, 1, 2),
		NewWorker: func(int) func(engine.Vec) engine.Result {
			r := rig.MustNew(rig.Opts{Cfg: newConfig()})
			return func(v engine.Vec) engine.Result {
				g := func(n string) string { return sp.Get(v, n) }
				a := nmAssertion(g("nm"))
				applyTimeDev(&a, g)
				cfg := providerCfg
				cfg.issuer = nmIssuers[g("vIssuer")]
				variant := g("variant")
				if variant == "custom-subject" {
					a.subPolicy = "iss-or-u1"
				}
				tok := serialize(a.signer, a.kid, a.payload(vT0, cfg.issuer))
				now := vT0.Add(250 * time.Millisecond)
				expect, rule := judge(a, tok, vT0, now, cfg)

				var ksCalls []string
				var ver *op.JWTProfileVerifier
				switch variant {
				case "default":
					ver = op.NewJWTProfileVerifier(r.Storage, cfg.issuer, cfg.maxAge, cfg.offset)
				case "custom-subject":
					ver = op.NewJWTProfileVerifier(r.Storage, cfg.issuer, cfg.maxAge, cfg.offset, op.SubjectCheck(customSubject))
				case "keyset":
					ver = op.NewJWTProfileVerifierKeySet(issKeySet{calls: &ksCalls}, cfg.issuer, cfg.maxAge, cfg.offset)
				}
				r.Core.Reset(r.Core.St)
				var obs verifyObs
				entry := g("entry")
				obs.pan = engine.Bubble(t, now.Sub(engine.Epoch), func() {
					switch entry {
					case "VerifyJWTAssertion":
						obs.req, obs.err = op.VerifyJWTAssertion(context.Background(), tok, ver)
					case "ClientJWTAuth":
						obs.idOnly = true
						obs.id, obs.err = op.ClientJWTAuth(context.Background(), oidc.ClientAssertionParams{ClientAssertion: tok, ClientAssertionType: atypeJWT}, profileOf{ver})
					}
				})
				site := variant
				if entry != "VerifyJWTAssertion" {
					site = entry + "-" + variant
				}
				if variant == "keyset" {
					obs.lookups = ksCalls
				} else {
					obs.lookups = keyLookups(r)
				}
				return evalVerify(a, tok, expect, rule, site, cfg.issuer, obs, false, func() string {
					return fmt.Sprintf("near-miss %s: assertion header=%+v payload=%s verifier{issuer=%s maxAge=%s offset=%s %s} now=T0+250ms", g("nm"), headerOf(tok), parseCompact(tok).payload, cfg.issuer, cfg.maxAge, cfg.offset, site)
				})
			}
		},
	})
}

func runNearMissEndpoint(t *testing.T, c *engine.Check) {
	envs := map[string]epEnv{}
	for name, iss := range nmIssuers {
		envs[name] = envFor(t, iss)
		if envs[name].base.err != "" {
			c.Internal(envs[name].base.err + " (issuer " + iss + ")")
			return
		}
	}
	sp := engine.Space{
		engine.D("nm", nmAssertionLetters([]string{"str", "arr", "2nd", "+V"})...),
		engine.D("op", "code", "refresh", "introspect", "revoke", "device", "bearer", "devtoken"),
		engine.D("router", "provider", "legacy"),
		engine.D("issuer", "host", "port", "path"),
		engine.D("pv", "default", "tolerant"),
		engine.D("cid", "absent", "=iss", "A"),
		engine.D("iat", "-10", "absent", "8", "-3610"),
		engine.D("exp", "3600", "absent", "-10"),
		engine.D("extra", "none", "scope"),
	}
	c.RunE1(engine.E1{
		Part:  "nearmiss-endpoint",
		Space: sp,
		// quick: the near-misses on every operation x router x issuer shape; and on every operation
		// x provider verifier (a tolerant subject check turns a sub near-miss into an accepted
		// assertion: everything must still be done for iss). thorough: + all single deviations.
		Groups: [][]string{{"nm", "op", "router", "issuer"}, {"nm", "op", "pv"}},
		Ks:     []int{engine.Pick(c, 0, 1), engine.Pick(c, 0, 1)},
		Skip: func(v engine.Vec) bool {
			return sp.Get(v, "op") == "bearer" && sp.Get(v, "cid") != "absent"
		},
		NewWorker: func(int) func(engine.Vec) engine.Result {
			return func(v engine.Vec) engine.Result {
				g := func(n string) string { return sp.Get(v, n) }
				env := envs[g("issuer")]
				r := newRigIssPV(true, g("pv"), env.cfg.issuer)
				a := nmAssertion(g("nm"))
				applyTimeDev(&a, g)
				if g("pv") == "tolerant" {
					a.subPolicy = "any"
				}
				cid := g("cid")
				if cid == "A" { // the client_id form member names the client whose id iss is a near-miss of
					cid = "=iss"
					if a.iss != A {
						cid = "A"
					}
				}
				now := eT0.Add(250 * time.Millisecond)
				tok := serialize(a.signer, a.kid, a.payload(eT0, env.cfg.issuer))
				res, _ := endpointCaseX(t, r, env, g("op"), g("router"), a, tok, "jwt-bearer", cid, now, "", false)
				return res
			}
		},
	})
}

// ---------------------------------------------------------------------------
// request objects

// nmObjectLetters: "none" (the fully conforming object) and the near-misses of every string
// ParseRequestObject compares:
//
//	oaud|<form>|<kind>      aud of the object: near-miss of the provider's issuer (forms as above)
//	oiss|<cid>|<kind>       object iss = near-miss of the requesting client's id, with the client_id
//	                        claim = the requesting client / absent / the same near-miss
//	ocid|<kind>             client_id claim = near-miss, iss = the requesting client
//	ort|<outer rt>|<kind>   response_type claim = near-miss of the outer response_type
//	kid|<kind> kidP|<kind>  header kid = near-miss of the requesting client's kid; signed with its
//	                        key / with the other client's key
//	oissN|<cid>|<kind>      as oiss, but signed with the key of the registered client N that owns
//	                        the near-miss id (under N's kid)
//	ownN|<kind>             N is the requesting client and the object is its own: must be honoured
//	AonN|<kind>             N is the requesting client, the object is A's (iss = client_id = A, A's key)
func nmObjectLetters() []string {
	out := []string{"none"}
	for _, f := range []string{"str", "arr", "2nd", "1st", "+V", "V+"} {
		out = append(out, cross("oaud|"+f+"|", nmGeneric, nmURLKinds, []string{"empty"})...)
	}
	for _, f := range []string{"oiss|outer", "oiss|absent", "oiss|same", "ocid", "ort|code", "ort|code id_token", "kid", "kidP",
		"oissN|outer", "oissN|absent", "oissN|same", "ownN", "AonN"} {
		out = append(out, cross(f+"|", nmGeneric)...)
	}
	return out
}

func nmObjectCase(letter string) map[string]string {
	m := map[string]string{"oiss": "outer", "ocid": "outer", "oaud": "[V]", "ort": "same", "outerRT": "code", "signer": "outer.k"}
	p := strings.Split(letter, "|")
	switch p[0] {
	case "none":
	case "oaud":
		m["oaud"] = "nm|" + p[1] + "|" + p[2]
	case "oiss", "oissN":
		m["oiss"] = "nm:" + p[2]
		if p[0] == "oissN" {
			m["signer"] = "key-of:nm:" + p[2]
		}
		switch p[1] {
		case "absent":
			m["ocid"] = "absent"
		case "same":
			m["ocid"] = "nm:" + p[2]
		}
	case "ocid":
		m["ocid"] = "nm:" + p[1]
	case "ort":
		m["outerRT"], m["ort"] = p[1], "nm:"+p[2]
	case "kid":
		m["signer"] = "outer.k|nm:" + p[1]
	case "kidP":
		m["signer"] = "peer.k|nm:" + p[1]
	case "ownN": // (only with the dimension "outer" at A: the requesting client is N = near-miss of A)
		m["outer"] = nearMiss(A, p[1])
	case "AonN":
		m["outer"] = nearMiss(A, p[1])
		m["oiss"], m["ocid"], m["signer"] = A, A, "key-of:"+A
	default:
		panic("c14: near-miss letter " + letter)
	}
	return m
}

func runNearMissReqObj(t *testing.T, c *engine.Check) {
	sp := engine.Space{
		engine.D("nm", nmObjectLetters()...),
		engine.D("router", "provider", "legacy"),
		engine.D("issuer", "host", "port", "path"),
		engine.D("outer", A, B),
		engine.D("members", "all", "none", "redirect_uri", "state", "scope", "redir-foreign"),
		engine.D("plainScope", "openid email", "email"),
		engine.D("feature", "on", "off"),
	}
	c.RunE1(engine.E1{
		Part:   "nearmiss-reqobj",
		Space:  sp,
		Groups: [][]string{{"nm", "router", "issuer", "outer"}},
		K:      engine.Pick(c, 0, 1),
		Skip: func(v engine.Vec) bool { // letters that name the requesting client themselves
			nm, outer := sp.Get(v, "nm"), sp.Get(v, "outer")
			if p := strings.Split(nm, "|"); p[0] == "oissN" { // exists when that near-miss of the requesting client's id is registered
				return registry[nearMiss(outer, p[2])] == nil
			}
			return (strings.HasPrefix(nm, "ownN|") || strings.HasPrefix(nm, "AonN|")) && outer != A
		},
		NewWorker: func(int) func(engine.Vec) engine.Result {
			return func(v engine.Vec) engine.Result {
				m := nmObjectCase(sp.Get(v, "nm"))
				g := func(n string) string {
					if x, ok := m[n]; ok {
						return x
					}
					return sp.Get(v, n)
				}
				issuer := nmIssuers[g("issuer")]
				res, _ := reqobjCaseX(t, newRigIss(g("feature") == "on", issuer), issuer, g)
				return res
			}
		},
	})
}
