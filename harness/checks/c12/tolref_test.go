package c12

// Reference side of the tolerant forms: what a BCP 47 tag string and an RFC 3339
// string denote. Both are decided by a trusted library (x/text/language, time)
// and, for RFC 3339, additionally by a small strict reading of the grammar of
// the RFC; where the two readings disagree the statement is silent and the
// outcome is open between them (never more).

import (
	"errors"
	"strings"
	"sync"
	"time"

	"golang.org/x/text/language"
)

// tagInfo: the reference reading of one locale string.
type tagInfo struct {
	valid  bool            // a defined (non-root) BCP 47 tag
	accept map[string]bool // the spellings that denote the document's tag (canonical casing, x/text's canonicalisations)
	cls    string          // tag-valid | tag-valid-canonicalised | tag-root | tag-unknown-subtag | tag-malformed
}

// every canonicalisation x/text offers: a decoder may store the tag raw (as
// language.Tag.UnmarshalText does) or canonicalised (as language.Parse does);
// both are "the value the document contained".
var canonTypes = []language.CanonType{
	language.Raw, language.Default, language.All,
	language.DeprecatedBase, language.DeprecatedScript, language.DeprecatedRegion,
	language.SuppressScript, language.Legacy, language.Macro, language.CLDR, language.BCP47,
}

func computeTagInfo(s string) *tagInfo {
	ti := &tagInfo{}
	def, err := language.Parse(s)
	switch {
	case err == nil && def == language.Und:
		ti.cls = "tag-root"
	case err == nil:
		ti.valid = true
		ti.cls = "tag-valid-canonicalised"
		ti.accept = map[string]bool{}
		for _, ct := range canonTypes {
			if t, err := ct.Parse(s); err == nil && t != language.Und {
				ti.accept[t.String()] = true
				if strings.EqualFold(t.String(), strings.ReplaceAll(s, "_", "-")) {
					ti.cls = "tag-valid"
				}
			}
		}
	default:
		var ve language.ValueError
		if errors.As(err, &ve) {
			ti.cls = "tag-unknown-subtag"
		} else {
			ti.cls = "tag-malformed"
		}
	}
	return ti
}

var tagInfos sync.Map // string -> *tagInfo (pure function of the key)

func tagInfoOf(s string) *tagInfo {
	if v, ok := tagInfos.Load(s); ok {
		return v.(*tagInfo)
	}
	ti := computeTagInfo(s)
	tagInfos.Store(s, ti)
	return ti
}

// ---------------------------------------------------------------------------

func digits(s string, n int) (int, bool) {
	if len(s) != n {
		return 0, false
	}
	v := 0
	for _, c := range []byte(s) {
		if c < '0' || c > '9' {
			return 0, false
		}
		v = v*10 + int(c-'0')
	}
	return v, true
}

// strictRFC3339 reads s by the grammar of RFC 3339 section 5.6 (date-time):
// 4-digit year, 2-digit fields, "T"/"t", optional "." 1*DIGIT, "Z"/"z" or a
// numeric offset hh:mm (00-23:00-59), day within the month, second 00-60. It
// returns the acceptable whole-second readings (floor of a fraction; a leap
// second reads as the second before or the second after).
func strictRFC3339(s string) (vals []int64, ok bool) {
	// YYYY-MM-DDTHH:MM:SS = 19 bytes
	if len(s) < 20 {
		return nil, false
	}
	y, ok1 := digits(s[0:4], 4)
	mo, ok2 := digits(s[5:7], 2)
	d, ok3 := digits(s[8:10], 2)
	h, ok4 := digits(s[11:13], 2)
	mi, ok5 := digits(s[14:16], 2)
	sec, ok6 := digits(s[17:19], 2)
	if !(ok1 && ok2 && ok3 && ok4 && ok5 && ok6) || s[4] != '-' || s[7] != '-' || (s[10] != 'T' && s[10] != 't') || s[13] != ':' || s[16] != ':' {
		return nil, false
	}
	if mo < 1 || mo > 12 || d < 1 || h > 23 || mi > 59 || sec > 60 {
		return nil, false
	}
	dim := []int{31, 28, 31, 30, 31, 30, 31, 31, 30, 31, 30, 31}[mo-1]
	if mo == 2 && y%4 == 0 && (y%100 != 0 || y%400 == 0) {
		dim = 29
	}
	if d > dim {
		return nil, false
	}
	rest := s[19:]
	if rest[0] == '.' {
		i := 1
		for i < len(rest) && rest[i] >= '0' && rest[i] <= '9' {
			i++
		}
		if i == 1 {
			return nil, false
		}
		rest = rest[i:]
	}
	var off int64
	switch {
	case rest == "Z" || rest == "z":
	case len(rest) == 6 && (rest[0] == '+' || rest[0] == '-') && rest[3] == ':':
		oh, oka := digits(rest[1:3], 2)
		om, okb := digits(rest[4:6], 2)
		if !oka || !okb || oh > 23 || om > 59 {
			return nil, false
		}
		off = int64(oh*3600 + om*60)
		if rest[0] == '-' {
			off = -off
		}
	default:
		return nil, false
	}
	leap := sec == 60
	if leap {
		sec = 59
	}
	base := time.Date(y, time.Month(mo), d, h, mi, sec, 0, time.UTC).Unix() - off
	if leap {
		return []int64{base, base + 1}, true
	}
	return []int64{base}, true
}

// timeStringExpect: the decoding contract of a JSON string in a time member.
func timeStringExpect(x string) expect {
	goT, goErr := time.Parse(time.RFC3339, x)
	st, stOK := strictRFC3339(x)
	var vals []any
	add := func(v int64) {
		for _, a := range vals {
			if a == float64(v) {
				return
			}
		}
		vals = append(vals, float64(v))
	}
	if goErr == nil {
		add(goT.Unix())
		if goT.IsZero() {
			// the instant 0001-01-01T00:00:00Z is what oidc.Time(0).AsTime() denotes
			add(0)
		}
	}
	if stOK {
		for _, v := range st {
			add(v)
		}
	}
	switch {
	case goErr == nil && stOK:
		return expect{kind: "documented", allowed: vals}
	case goErr != nil && !stOK:
		return otherForm(float64(0))
	}
	// the two readings of "RFC 3339 string" disagree: open between them
	add(0)
	return expect{kind: "open", allowErr: true, allowed: vals}
}

// timeStringClass names the input class of a generated time string.
func timeStringClass(x string) string {
	_, goErr := time.Parse(time.RFC3339, x)
	_, stOK := strictRFC3339(x)
	switch {
	case goErr == nil && stOK:
		return "string-rfc3339"
	case goErr != nil && !stOK:
		return "string-rfc3339-near-miss"
	}
	return "string-rfc3339-disputed"
}
