package c12

// Parts "aes-keys" and "aes-op": sealing under RELATED keys.
//
// "... decrypts every sealed string back to its plaintext and only under the same key."
// The key alphabet of part "aes" holds unrelated keys (and two one-byte neighbours). A
// sealing layer that normalises its key before use (pads, truncates, trims, folds, uses
// only a part of it) keeps every one of those cases intact and still lets DISTINCT keys
// open each other's strings. This file enumerates the family of keys derived from a base
// key by every such relation, in both roles:
//
//	aes-keys  base (16/24/32 bytes, all-zero 16 bytes) x seal-key variant x open-key variant
//	          x plaintext length x pattern x API, full product. Variants of a base B of
//	          length L: B itself; B cut to every length T < L of {0,1,15,16,17,24,31};
//	          B extended to every length T > L of {17,24,31,32,33,40,64} with zero bytes /
//	          spaces / 0xff / B repeated / other bytes; one byte flipped (first, middle, last).
//	aes-op    op.NewAESCrypto([32]byte): base key x variant (same instance, second instance
//	          with an equal key, one bit flipped in every byte position 0..31, tail after
//	          byte 16 / 24 zeroed or replaced, every byte different) x direction x length x
//	          pattern.
//
// Oracle (the relation of the two keys is computed from their bytes, never from the names):
// sealing under a key of a size AES defines must succeed; under any other size it may fail
// (nothing follows) or succeed; whenever sealing under a succeeded, opening under a itself
// must give the plaintext, opening under any b != a must give an error or - for plaintexts
// of at least one block - something other than the plaintext; never a panic. Shorter
// plaintexts under another key: Either (random IV, collision probability >= 2^-120).

import (
	"bytes"
	"fmt"
	"strconv"
	"strings"

	"github.com/zitadel/oidc/v3/pkg/crypto"
	"github.com/zitadel/oidc/v3/pkg/op"

	"verif/harness/engine"
)

var relBases = map[string]string{
	"b32": "0123456789abcdefghijklmnopqrstuv",
	"b16": "ABCDEFGHIJKLMNOP",
	"b24": "abcdefghijklmnopqrstuvwx",
	"z16": strings.Repeat("\x00", 16),
}

var relCutLens = []int{0, 1, 15, 16, 17, 24, 31}
var relExtLens = []int{17, 24, 31, 32, 33, 40, 64}
var relFills = []string{"zero", "space", "ff", "self", "other"}

func relVariantNames() []string {
	out := []string{"same", "flip-first", "flip-mid", "flip-last"}
	for _, t := range relCutLens {
		out = append(out, "cut-"+strconv.Itoa(t))
	}
	for _, t := range relExtLens {
		for _, f := range relFills {
			out = append(out, "ext-"+strconv.Itoa(t)+"-"+f)
		}
	}
	return out
}

// relKey builds the variant of base; ok=false when the variant does not exist for a base of
// this length (cut to a length that is not shorter, extension to one that is not longer).
func relKey(base, variant string) (string, bool) {
	b := []byte(base)
	L := len(b)
	switch {
	case variant == "same":
		return base, true
	case variant == "flip-first":
		b[0] ^= 0x01
	case variant == "flip-mid":
		b[L/2] ^= 0x20
	case variant == "flip-last":
		b[L-1] ^= 0x80
	case strings.HasPrefix(variant, "cut-"):
		t, _ := strconv.Atoi(variant[4:])
		if t >= L {
			return "", false
		}
		b = b[:t]
	case strings.HasPrefix(variant, "ext-"):
		f := strings.SplitN(variant[4:], "-", 2)
		t, _ := strconv.Atoi(f[0])
		if t <= L {
			return "", false
		}
		for i := L; i < t; i++ {
			var x byte
			switch f[1] {
			case "zero":
				x = 0
			case "space":
				x = ' '
			case "ff":
				x = 0xff
			case "self":
				x = base[i%L]
			case "other":
				x = byte('Z' - i%7)
			}
			b = append(b, x)
		}
	}
	return string(b), true
}

func aesKeySize(n int) bool { return n == 16 || n == 24 || n == 32 }

// keyRelation names how two distinct keys are related (low cardinality; from the bytes).
func keyRelation(a, b string) string {
	if a == b {
		return "same"
	}
	s, l := a, b
	if len(s) > len(l) {
		s, l = l, s
	}
	if strings.HasPrefix(l, s) {
		if strings.Trim(l[len(s):], "\x00") == "" {
			return "zero-extended"
		}
		return "prefix-extended"
	}
	common := 0
	for common < len(s) && s[common] == l[common] {
		common++
	}
	if len(a) == len(b) {
		diff := 0
		for i := range a {
			if a[i] != b[i] {
				diff++
			}
		}
		if diff == 1 {
			return "one-byte"
		}
	}
	switch {
	case common >= 32:
		return "shared-prefix-32"
	case common >= 16:
		return "shared-prefix-16"
	}
	return "shared-prefix-short"
}

func relLens(thorough bool) []string {
	if !thorough {
		return []string{"32", "0", "5", "15", "16", "17", "33", "48", "1024"}
	}
	var lens []string
	for i := 0; i <= 80; i++ {
		lens = append(lens, strconv.Itoa(i))
	}
	return append(lens, "1024", "4096")
}

func relKeysSpace(thorough bool) engine.Space {
	vs := relVariantNames()
	return engine.Space{
		engine.D("base", "b32", "b16", "b24", "z16"),
		engine.D("seal", vs...),
		engine.D("open", vs...),
		engine.D("len", relLens(thorough)...),
		engine.D("pattern", "ascii", "zero", "ff", "utf8", "counter"),
		engine.D("api", "string", "bytes"),
	}
}

func relKeysSkip(sp engine.Space) func(engine.Vec) bool {
	return func(v engine.Vec) bool {
		base := relBases[sp[0].Vals[v[0]]]
		if _, ok := relKey(base, sp[1].Vals[v[1]]); !ok {
			return true
		}
		_, ok := relKey(base, sp[2].Vals[v[2]])
		return !ok
	}
}

func sizeClass(k string) string {
	if aesKeySize(len(k)) {
		return "valid-size"
	}
	return "invalid-size"
}

func runRelKeys(sp engine.Space, v engine.Vec) engine.Result {
	base := relBases[sp[0].Vals[v[0]]]
	ka, _ := relKey(base, sp[1].Vals[v[1]])
	kb, _ := relKey(base, sp[2].Vals[v[2]])
	n, _ := strconv.Atoi(sp[3].Vals[v[3]])
	p := plaintext(n, sp[4].Vals[v[4]])
	api := sp[5].Vals[v[5]]
	desc := fmt.Sprintf("seal key %q (%d bytes), open key %q (%d bytes), plaintext %d bytes", ka, len(ka), kb, len(kb), n)

	var sealedStr string
	var sealed []byte
	var err error
	if pn := engine.Safe(func() {
		if api == "string" {
			sealedStr, err = crypto.EncryptAES(string(p), ka)
		} else {
			sealed, err = crypto.EncryptBytesAES(bytes.Clone(p), ka)
		}
	}); pn != "" {
		return engine.Bad("seal", "panic", "C12/panic/seal/encrypt-"+api, desc+": "+pn)
	}
	if err != nil {
		if aesKeySize(len(ka)) {
			return engine.Bad("seal-must-succeed", "refused", "C12/seal-refused/"+api, desc+": "+err.Error())
		}
		return engine.OK("seal-key-invalid-size", "refused")
	}

	var out []byte
	pn := engine.Safe(func() {
		if api == "string" {
			var s string
			s, err = crypto.DecryptAES(sealedStr, kb)
			out = []byte(s)
		} else {
			out, err = crypto.DecryptBytesAES(bytes.Clone(sealed), kb)
		}
	})
	rel := keyRelation(ka, kb)
	if rel == "same" {
		rule := "same-key/" + sizeClass(ka)
		switch {
		case pn != "":
			return engine.Bad(rule, "panic", "C12/panic/seal/decrypt-"+api, desc+": "+pn)
		case err != nil:
			return engine.Bad(rule, "refused", "C12/seal-roundtrip-refused/"+api, desc+": "+err.Error())
		case !bytes.Equal(out, p):
			return engine.Bad(rule, "different-plaintext", "C12/seal-roundtrip-differs/"+api+"/"+lenClass(n), fmt.Sprintf("%s: got %q", desc, trunc(out)))
		}
		return engine.OK(rule, "same-plaintext")
	}
	rule := "related-key/" + rel + "/seal-" + sizeClass(ka) + "/open-" + sizeClass(kb)
	switch {
	case pn != "":
		return engine.Bad(rule, "panic", "C12/panic/seal/decrypt-"+api, desc+": "+pn)
	case err != nil:
		return engine.OK(rule, "error")
	case n < 16:
		return engine.OK(rule+":undecidable-short", "no-error")
	case bytes.Equal(out, p):
		return engine.Bad(rule, "same-plaintext", "C12/seal-opens-under-other-key/"+rel+"/"+api, desc+": a DIFFERENT key opens the sealed string to its plaintext")
	}
	return engine.OK(rule, "different-plaintext")
}

// ---------------------------------------------------------------- op.NewAESCrypto

func opBaseKey(name string) (k [32]byte) {
	switch name {
	case "ascii":
		copy(k[:], relBases["b32"])
	case "zero":
	case "ztail16":
		copy(k[:], relBases["b16"])
	case "ztail24":
		copy(k[:], relBases["b24"])
	case "high":
		for i := range k {
			k[i] = byte(0x80 + 3*i)
		}
	case "nul-first":
		copy(k[1:], relBases["b32"])
	}
	return
}

func opVariantNames() []string {
	out := []string{"same-instance", "equal-key", "tail16-zeroed", "tail24-zeroed", "tail16-other", "tail24-other", "head16-other", "all-other"}
	for i := 0; i < 32; i++ {
		for _, bit := range []int{0, 5, 7} {
			out = append(out, fmt.Sprintf("flip@%d.%d", i, bit))
		}
	}
	return out
}

func opVariantKey(k [32]byte, variant string) [32]byte {
	switch variant {
	case "same-instance", "equal-key":
	case "tail16-zeroed":
		clear(k[16:])
	case "tail24-zeroed":
		clear(k[24:])
	case "tail16-other":
		for i := 16; i < 32; i++ {
			k[i] ^= 0x55
		}
	case "tail24-other":
		for i := 24; i < 32; i++ {
			k[i] ^= 0x55
		}
	case "head16-other":
		for i := 0; i < 16; i++ {
			k[i] ^= 0x55
		}
	case "all-other":
		for i := range k {
			k[i] ^= 0x15
		}
	default:
		var i, b int
		fmt.Sscanf(variant, "flip@%d.%d", &i, &b)
		k[i] ^= 1 << b
	}
	return k
}

func opKeyRelation(a, b [32]byte) string {
	first, diff := -1, 0
	for i := range a {
		if a[i] != b[i] {
			if first < 0 {
				first = i
			}
			diff++
		}
	}
	if diff == 0 {
		return "same"
	}
	where := "bytes-0-15"
	switch {
	case first >= 24:
		where = "bytes-24-31"
	case first >= 16:
		where = "bytes-16-23"
	}
	if diff == 1 {
		return "one-byte-in-" + where
	}
	return "differs-from-" + where
}

func opCryptoSpace(thorough bool) engine.Space {
	return engine.Space{
		engine.D("base", "ascii", "zero", "ztail16", "ztail24", "high", "nul-first"),
		engine.D("variant", opVariantNames()...),
		engine.D("dir", "seal-base", "seal-variant"),
		engine.D("len", relLens(thorough)...),
		engine.D("pattern", "ascii", "zero", "ff", "utf8", "counter"),
	}
}

func opCryptoSkip(sp engine.Space) func(engine.Vec) bool {
	return func(v engine.Vec) bool {
		return sp[1].Vals[v[1]] == "same-instance" && sp[2].Vals[v[2]] == "seal-variant"
	}
}

func runOpCrypto(sp engine.Space, v engine.Vec) engine.Result {
	variant := sp[1].Vals[v[1]]
	ka := opBaseKey(sp[0].Vals[v[0]])
	kb := opVariantKey(ka, variant)
	if sp[2].Vals[v[2]] == "seal-variant" {
		ka, kb = kb, ka
	}
	n, _ := strconv.Atoi(sp[3].Vals[v[3]])
	p := plaintext(n, sp[4].Vals[v[4]])
	desc := fmt.Sprintf("seal key %x, open key %x, plaintext %d bytes", ka, kb, n)

	var sealer, opener op.Crypto
	var sealed string
	var err error
	if pn := engine.Safe(func() {
		sealer = op.NewAESCrypto(ka)
		opener = sealer
		if variant != "same-instance" {
			opener = op.NewAESCrypto(kb)
		}
		sealed, err = sealer.Encrypt(string(p))
	}); pn != "" {
		return engine.Bad("seal", "panic", "C12/panic/seal/op-crypto-encrypt", desc+": "+pn)
	}
	if err != nil {
		return engine.Bad("seal-must-succeed", "refused", "C12/seal-refused/op-crypto", desc+": "+err.Error())
	}
	var out string
	pn := engine.Safe(func() { out, err = opener.Decrypt(sealed) })
	rel := opKeyRelation(ka, kb)
	if rel == "same" {
		rule := "same-key/" + map[bool]string{true: "same-instance", false: "second-instance"}[variant == "same-instance"]
		switch {
		case pn != "":
			return engine.Bad(rule, "panic", "C12/panic/seal/op-crypto-decrypt", desc+": "+pn)
		case err != nil:
			return engine.Bad(rule, "refused", "C12/seal-roundtrip-refused/op-crypto", desc+": "+err.Error())
		case out != string(p):
			return engine.Bad(rule, "different-plaintext", "C12/seal-roundtrip-differs/op-crypto/"+lenClass(n), fmt.Sprintf("%s: got %q", desc, trunc([]byte(out))))
		}
		return engine.OK(rule, "same-plaintext")
	}
	rule := "related-key/" + rel
	switch {
	case pn != "":
		return engine.Bad(rule, "panic", "C12/panic/seal/op-crypto-decrypt", desc+": "+pn)
	case err != nil:
		return engine.OK(rule, "error")
	case n < 16:
		return engine.OK(rule+":undecidable-short", "no-error")
	case out == string(p):
		return engine.Bad(rule, "same-plaintext", "C12/seal-opens-under-other-key/"+rel+"/op-crypto", desc+": a Crypto built from a DIFFERENT key opens the sealed string to its plaintext")
	}
	return engine.OK(rule, "different-plaintext")
}
