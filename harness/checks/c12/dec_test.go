package c12

// Part 2: decoding. The JSON shape grammar of DESIGN §2 C09(b) plus the
// documented tolerant forms is applied to every registered member of every
// claims type (and to the codec's leaf types on their own). The oracle knows,
// per member category, which shapes are documented forms (and the value they
// denote); every other shape must give an error or the zero value; a panic or
// a value that is not in the document is a violation.

import (
	"encoding/json"
	"fmt"
	"math"
	"reflect"
	"sort"
	"strings"
	"time"

	"verif/harness/engine"
)

// shape = one JSON text; val is its reference decoding (what encoding/json's
// generic decoder yields), undecodable marks texts no JSON number type holds.
type shape struct {
	label       string
	text        string
	val         any
	undecodable bool
	cls         string // input class used in signatures; derived from val when empty (generated shapes set it)
}

const deep10 = `[[[[[[[[[[1]]]]]]]]]]`

var shapes = func() []shape {
	mk := func(label, text string) shape {
		s := shape{label: label, text: text}
		if err := json.Unmarshal([]byte(text), &s.val); err != nil {
			s.undecodable = true
		}
		return s
	}
	return []shape{
		mk("null", `null`), mk("true", `true`), mk("false", `false`),
		mk("0", `0`), mk("-1", `-1`), mk("1", `1`), mk("1.5", `1.5`), mk("1e400", `1e400`),
		mk("2^63", `9223372036854775808`), mk("-2^63-2^11", `-9223372036854777856`), mk("1700000000", `1700000000`),
		mk("str-s", `"s"`), mk("str-empty", `""`),
		mk("arr-empty", `[]`), mk("arr-emptystr", `[""]`), mk("arr-a-b", `["a","b"]`),
		mk("arr-num", `[1]`), mk("arr-null", `[null]`), mk("arr-arr", `[[]]`), mk("arr-a-num", `["a",1]`), mk("arr-obj", `[{}]`),
		mk("obj-empty", `{}`), mk("obj-a1", `{"a":1}`),
		mk("str-invalid-utf8", "\"\xff\""), mk("deep10", deep10),
		// documented tolerant forms and their near misses
		mk("str-rfc3339", `"2023-11-14T22:13:20Z"`), mk("str-rfc3339-frac-tz", `"2023-11-14T23:13:20.5+01:00"`),
		mk("str-time-garbage", `"yesterday"`), mk("str-time-noTZ", `"2023-11-14T22:13:20"`),
		mk("str-en", `"en"`), mk("str-xx-invalid", `"xx-invalid"`), mk("str-en-de", `"en de"`), mk("arr-en-de", `["en","de"]`),
		mk("arr-en-xx-invalid", `["en","xx-invalid",""]`),
		mk("str-true", `"true"`), mk("str-false", `"false"`), mk("str-TRUE", `"TRUE"`),
		mk("str-a-b", `"a b"`),
		// nested objects
		mk("actor-ok", `{"iss":"i","sub":"s","x":1}`), mk("actor-nested", `{"sub":"a","act":{"sub":"b","act":{"sub":"c"}}}`),
		mk("actor-bad-iss", `{"iss":1}`), mk("actor-bad-act", `{"sub":"a","act":"s"}`), mk("actor-bad-inner", `{"act":{"act":{"sub":[1]}}}`),
		mk("addr-ok", `{"formatted":"f","country":"c"}`), mk("addr-bad", `{"formatted":1}`),
	}
}()

var shapeByLabel = func() map[string]*shape {
	m := map[string]*shape{}
	for i := range shapes {
		m[shapes[i].label] = &shapes[i]
	}
	return m
}()

// class is the low-cardinality input class of a shape used in violation
// signatures (one signature per defect site, not per spelling).
func (s *shape) class() string {
	if s.cls != "" {
		return s.cls
	}
	if s.undecodable {
		return "number-unrepresentable"
	}
	switch x := s.val.(type) {
	case nil:
		return "null"
	case bool:
		return "boolean"
	case float64:
		switch {
		case x >= math.MaxInt64 || x < math.MinInt64:
			return "number-beyond-int64"
		case x != math.Trunc(x):
			return "number-fraction"
		}
		return "number"
	case string:
		if _, err := time.Parse(time.RFC3339, x); err == nil {
			return "string-rfc3339"
		}
		return "string"
	case []any:
		if _, ok := allStrings(x); ok {
			return "array-of-strings"
		}
		return "array-with-non-strings"
	}
	return "object"
}

func shapeLabels() []string {
	out := make([]string, len(shapes))
	for i, s := range shapes {
		out[i] = s.label
	}
	return out
}

// expectation for one member: the set of acceptable decoded values (in refVal
// form) and whether an error is acceptable. any = statement leaves it open.
type expect struct {
	kind     string // documented | other-form | open
	allowErr bool
	allowed  []any
	any      bool
	match    func(got any) bool // optional: further acceptable values (sets too large to list)
}

func documented(vals ...any) expect { return expect{kind: "documented", allowed: vals} }
func otherForm(zero any) expect {
	return expect{kind: "other-form", allowErr: true, allowed: []any{zero}}
}

var openExpect = expect{kind: "open", allowErr: true, any: true}

// nullsAsEmpty: a list whose members are strings or null; null members read
// as the zero string (ok=false if there is no null or another kind of member).
func nullsAsEmpty(a []any) (out []any, ok bool) {
	for _, x := range a {
		switch s := x.(type) {
		case nil:
			ok = true
			out = append(out, "")
		case string:
			out = append(out, s)
		default:
			return nil, false
		}
	}
	return out, ok
}

func allStrings(a []any) ([]any, bool) {
	for _, x := range a {
		if _, ok := x.(string); !ok {
			return nil, false
		}
	}
	return a, true
}

func zeroOf(cat string) any {
	switch cat {
	case "string", "spacelist":
		return ""
	case "bool", "boolstr":
		return false
	case "time":
		return float64(0)
	}
	return nil
}

func listOrNil(a []any) any {
	if len(a) == 0 {
		return nil
	}
	return a
}

// expectFor is the decoding contract, written from the statement and the
// specifications it cites.
func expectFor(cat string, s *shape) expect {
	zero := zeroOf(cat)
	if s.undecodable {
		return otherForm(zero)
	}
	if s.val == nil { // JSON null: absent value
		return expect{kind: "documented", allowed: []any{zero}, allowErr: true}
	}
	if s.label == "str-invalid-utf8" {
		// the statement does not say what a string with invalid UTF-8 denotes
		return openExpect
	}
	switch cat {
	case "string":
		if str, ok := s.val.(string); ok {
			return documented(str)
		}
	case "bool":
		if b, ok := s.val.(bool); ok {
			return documented(b)
		}
	case "boolstr":
		switch s.val {
		case true, "true":
			return documented(true)
		case false, "false":
			return documented(false)
		}
	case "time":
		switch x := s.val.(type) {
		case float64:
			switch {
			case x != math.Trunc(x):
				// NumericDate may carry fractions; the type holds whole seconds
				return expect{kind: "documented", allowErr: true, allowed: []any{math.Floor(x), math.Ceil(x)}}
			case x >= math.MaxInt64:
				// not representable: error, zero, or the saturated bound
				return expect{kind: "other-form", allowErr: true, allowed: []any{float64(0), float64(math.MaxInt64)}}
			case x < math.MinInt64:
				return expect{kind: "other-form", allowErr: true, allowed: []any{float64(0), float64(math.MinInt64)}}
			default:
				return documented(x)
			}
		case string:
			return timeStringExpect(x)
		}
	case "audience":
		switch x := s.val.(type) {
		case string:
			return documented([]any{x})
		case []any:
			if l, ok := allStrings(x); ok {
				return documented(listOrNil(l))
			}
			if l, ok := nullsAsEmpty(x); ok {
				return expect{kind: "other-form", allowErr: true, allowed: []any{zero, l}}
			}
		}
	case "strings":
		if x, ok := s.val.([]any); ok {
			if l, ok := allStrings(x); ok {
				return documented(listOrNil(l))
			}
			if l, ok := nullsAsEmpty(x); ok {
				// a null member is an absent (zero) string
				return expect{kind: "other-form", allowErr: true, allowed: []any{zero, l}}
			}
		}
	case "spacelist":
		if str, ok := s.val.(string); ok {
			return documented(str) // compared in joined form
		}
	case "locale":
		if str, ok := s.val.(string); ok {
			if ti := tagInfoOf(str); ti.valid {
				// the document's tag in any canonical spelling of the reference library
				return expect{kind: "documented", match: func(got any) bool { g, ok := got.(string); return ok && ti.accept[g] }}
			}
		}
	case "locales":
		var in []any
		switch x := s.val.(type) {
		case string:
			for _, p := range strings.Split(x, " ") {
				in = append(in, p)
			}
		case []any:
			l, ok := allStrings(x)
			if !ok {
				return otherForm(zero)
			}
			in = l
		default:
			return otherForm(zero)
		}
		var good []*tagInfo
		clean := true
		for _, p := range in {
			if ti := tagInfoOf(p.(string)); ti.valid {
				good = append(good, ti)
			} else {
				clean = false
			}
		}
		// every defined tag of the document in document order (each in any canonical
		// spelling of the reference library), nothing else
		match := func(got any) bool {
			if len(good) == 0 {
				return got == nil
			}
			l, ok := got.([]any)
			if !ok || len(l) != len(good) {
				return false
			}
			for i, g := range l {
				if gs, ok := g.(string); !ok || !good[i].accept[gs] {
					return false
				}
			}
			return true
		}
		if clean {
			return expect{kind: "documented", match: match}
		}
		// undefined tags are dropped (documented) - or the whole list refused
		return expect{kind: "documented", allowErr: true, allowed: []any{nil}, match: match}
	case "actor":
		if m, ok := s.val.(map[string]any); ok {
			if strings.HasPrefix(s.label, "actor-bad") {
				return otherForm(zero)
			}
			return documented(m)
		}
	case "address":
		if m, ok := s.val.(map[string]any); ok {
			if s.label == "addr-bad" {
				return otherForm(zero)
			}
			known := map[string]any{}
			for _, f := range fieldsOf(tAddress.Elem()) {
				if v, ok := m[f.name]; ok {
					if _, isStr := v.(string); !isStr {
						return otherForm(zero)
					}
					known[f.name] = v
				}
			}
			return documented(known)
		}
	case "object":
		if m, ok := s.val.(map[string]any); ok {
			return documented(listOrNilMap(m))
		}
	default:
		return openExpect
	}
	return otherForm(zero)
}

func listOrNilMap(m map[string]any) any {
	if len(m) == 0 {
		return nil
	}
	return m
}

func (e expect) accepts(v any) bool {
	if e.any {
		return true
	}
	if e.match != nil && e.match(v) {
		return true
	}
	for _, a := range e.allowed {
		if eq(a, v) {
			return true
		}
	}
	return false
}

// ---------------------------------------------------------------------------

var docLabels = []string{"object", "null", "true", "0", "str", "arr-empty", "arr-obj", "empty", "truncated", "trailing", "dup-member"}

func docText(label string) string {
	switch label {
	case "null":
		return `null`
	case "true":
		return `true`
	case "0":
		return `0`
	case "str":
		return `"s"`
	case "arr-empty":
		return `[]`
	case "arr-obj":
		return `[{"sub":"s"}]`
	case "empty":
		return ``
	case "truncated":
		return `{"sub":"s"`
	case "trailing":
		return `{"sub":"s"}{"sub":"t"}`
	}
	return ""
}

type decType struct {
	t      reflect.Type
	fields []field
	space  engine.Space
}

const customMember = "x-custom"

func newDecType(t reflect.Type) *decType {
	d := &decType{t: t, fields: jsonFields(t)}
	alpha := append([]string{"absent"}, shapeLabels()...)
	for _, f := range d.fields {
		d.space = append(d.space, engine.D(f.name, alpha...))
	}
	d.space = append(d.space, engine.D(customMember, alpha...))
	d.space = append(d.space, engine.D("doc", docLabels...))
	return d
}

// skip vectors that combine a non-object document with member deviations.
func (d *decType) skip(v engine.Vec) bool {
	if v[len(v)-1] == 0 {
		return false
	}
	for _, x := range v[:len(v)-1] {
		if x != 0 {
			return true
		}
	}
	return false
}

type decResult struct {
	rule, outcome, sig, detail string
	panicked                   bool
	ptr                        reflect.Value // the decoded value (set when decoding succeeded and was judged correct)
}

// judge decodes a document that sets the members in `members` (index into
// d.fields, len(d.fields) = the custom member) to the given shapes.
func (d *decType) judge(members []int, shp []*shape) decResult {
	tn := d.t.Name()
	var sb strings.Builder
	sb.WriteByte('{')
	for i, m := range members {
		if i > 0 {
			sb.WriteByte(',')
		}
		name := customMember
		if m < len(d.fields) {
			name = d.fields[m].name
		}
		fmt.Fprintf(&sb, "%q:%s", name, shp[i].text)
	}
	sb.WriteByte('}')
	text := sb.String()

	exps := make([]expect, len(members))
	cats := make([]string, len(members))
	allowErr := false
	kinds := map[string]bool{}
	for i, m := range members {
		if m < len(d.fields) {
			cats[i] = d.fields[m].cat
			exps[i] = expectFor(cats[i], shp[i])
		} else {
			cats[i] = "custom"
			if shp[i].undecodable {
				exps[i] = otherForm(nil)
			} else {
				exps[i] = documented(shp[i].val)
			}
		}
		if exps[i].allowErr {
			allowErr = true
		}
		kinds[cats[i]+":"+exps[i].kind] = true
	}
	rule := "baseline-empty-object"
	if len(members) == 1 {
		rule = cats[0] + ":" + exps[0].kind
	} else if len(members) > 1 {
		ks := make([]string, 0, 2)
		for i := range members {
			ks = append(ks, exps[i].kind)
		}
		sort.Strings(ks)
		rule = "pair:" + strings.Join(ks, "+")
	}

	ptr := reflect.New(d.t)
	var err error
	if p := engine.Safe(func() { err = json.Unmarshal([]byte(text), ptr.Interface()) }); p != "" {
		return decResult{rule: rule, outcome: "panic", sig: "C12/panic/decode/" + strings.Join(cats, "+"), panicked: true,
			detail: fmt.Sprintf("json.Unmarshal(%s, *%s) panics: %s", text, tn, p)}
	}
	if err != nil {
		if allowErr {
			return decResult{rule: rule, outcome: "error"}
		}
		return decResult{rule: rule, outcome: "error", sig: "C12/documented-form-rejected/" + cats[0] + "/" + shp[0].class(),
			detail: fmt.Sprintf("json.Unmarshal(%s, *%s) = %v although every member has a documented form", text, tn, err)}
	}
	sv := ptr.Elem()
	given := map[int]int{}
	for i, m := range members {
		given[m] = i
	}
	outcome := "zero"
	for fi, f := range d.fields {
		got := refVal(sv.FieldByIndex(f.index), f.cat)
		i, present := given[fi]
		if !present {
			if !eq(got, zeroOf(f.cat)) && !(f.cat == "spacelist" && got == "") {
				return decResult{rule: rule, outcome: "invented-member", sig: "C12/decode-invented-member/" + f.cat,
					detail: fmt.Sprintf("json.Unmarshal(%s, *%s): member %q = %v is not in the document", text, tn, f.name, got)}
			}
			continue
		}
		if !exps[i].accepts(got) {
			what := "C12/decode-value-not-in-document/"
			if exps[i].kind == "documented" {
				what = "C12/documented-form-misread/"
			}
			return decResult{rule: rule, outcome: "wrong-value", sig: what + f.cat + "/" + shp[i].class(),
				detail: fmt.Sprintf("json.Unmarshal(%s, *%s): member %q decoded to %v, acceptable: %v (error acceptable: %v)", text, tn, f.name, got, exps[i].allowed, exps[i].allowErr)}
		}
		if !eq(got, zeroOf(f.cat)) {
			outcome = "value"
		}
	}
	// custom claims: every non-registered member of the document is kept, nothing else appears
	var cm map[string]any
	if m, ok := customMap(sv); ok && m.Len() > 0 {
		cm = norm(m.Interface()).(map[string]any)
	}
	if i, ok := given[len(d.fields)]; ok {
		if got, has := cm[customMember]; !has || !eq(got, shp[i].val) {
			return decResult{rule: rule, outcome: "custom-lost", sig: "C12/decode-custom-lost/" + tn,
				detail: fmt.Sprintf("json.Unmarshal(%s, *%s): custom member not kept, custom map = %v", text, tn, cm)}
		}
		if shp[i].val != nil {
			outcome = "value"
		}
	}
	for k := range cm {
		found := k == customMember && func() bool { _, ok := given[len(d.fields)]; return ok }()
		for m := range given {
			if m < len(d.fields) && d.fields[m].name == k {
				found = true
			}
		}
		if !found {
			return decResult{rule: rule, outcome: "invented-member", sig: "C12/decode-invented-custom/" + tn,
				detail: fmt.Sprintf("json.Unmarshal(%s, *%s): custom map has key %q that is not in the document", text, tn, k)}
		}
	}
	return decResult{rule: rule, outcome: outcome, ptr: ptr}
}

func (d *decType) run(v engine.Vec) engine.Result {
	tn := d.t.Name()
	if dl := d.space[len(v)-1].Vals[v[len(v)-1]]; dl != "object" {
		text := docText(dl)
		rule := "document-not-an-object"
		if dl == "dup-member" {
			return d.runDup()
		}
		ptr := reflect.New(d.t)
		var err error
		if p := engine.Safe(func() { err = json.Unmarshal([]byte(text), ptr.Interface()) }); p != "" {
			return engine.Bad(rule, "panic", "C12/panic/decode-document/"+tn, fmt.Sprintf("json.Unmarshal(%q) panics: %s", text, p))
		}
		if err != nil {
			return engine.OK(rule, "error")
		}
		if dl != "null" {
			// anything but null is not a claims document at all
			zero := reflect.New(d.t)
			if !reflect.DeepEqual(ptr.Interface(), zero.Interface()) {
				return engine.Bad(rule, "wrong-value", "C12/decode-value-not-in-document/document/"+dl, fmt.Sprintf("json.Unmarshal(%q, *%s) = %+v", text, tn, ptr.Interface()))
			}
		}
		return engine.OK(rule, "zero")
	}
	var members []int
	var shp []*shape
	for i, x := range v[:len(v)-1] {
		if x != 0 {
			members = append(members, i)
			shp = append(shp, shapeByLabel[d.space[i].Vals[x]])
		}
	}
	r := d.judge(members, shp)
	if r.sig != "" && len(members) > 1 {
		// attribute a violation of a combination to the member that shows it alone
		for i := range members {
			if s := d.judge(members[i:i+1], shp[i:i+1]); s.sig != "" {
				return engine.Bad(r.rule, r.outcome, s.sig, s.detail)
			}
		}
	}
	if r.sig != "" {
		return engine.Bad(r.rule, r.outcome, r.sig, r.detail)
	}
	return engine.OK(r.rule, r.outcome)
}

// runDup: a member given twice - the decoded value must be one of the two.
func (d *decType) runDup() engine.Result {
	rule := "duplicate-member"
	f := d.fields[0]
	for _, g := range d.fields {
		if g.cat == "string" {
			f = g
			break
		}
	}
	if f.cat != "string" {
		return engine.OK(rule, "not-applicable")
	}
	text := fmt.Sprintf(`{%q:"first",%q:"second"}`, f.name, f.name)
	ptr := reflect.New(d.t)
	var err error
	if p := engine.Safe(func() { err = json.Unmarshal([]byte(text), ptr.Interface()) }); p != "" {
		return engine.Bad(rule, "panic", "C12/panic/decode-document/"+d.t.Name(), p)
	}
	if err != nil {
		return engine.OK(rule, "error")
	}
	got := ptr.Elem().FieldByIndex(f.index).String()
	if got != "first" && got != "second" {
		return engine.Bad(rule, "wrong-value", "C12/decode-value-not-in-document/document/dup-member", fmt.Sprintf("%s: %q decoded from %s", d.t.Name(), got, text))
	}
	return engine.OK(rule, "value")
}

// ---------------------------------------------------------------------------
// the codec's leaf types decoded on their own

var leafTypes = []reflect.Type{tTime, tAudience, tSpace, tLocale.Elem(), tLocales, tBool}

func leafSpace() engine.Space {
	names := make([]string, len(leafTypes))
	for i, t := range leafTypes {
		names[i] = t.Name()
	}
	return engine.Space{engine.D("type", names...), engine.D("shape", shapeLabels()...)}
}

func runLeaf(sp engine.Space, v engine.Vec) engine.Result {
	r, _ := judgeLeaf(leafTypes[v[0]], shapeByLabel[sp[1].Vals[v[1]]])
	return r
}

// judgeLeaf decodes one shape into a leaf type on its own; ptr is the decoded
// value when decoding succeeded and was judged correct.
func judgeLeaf(t reflect.Type, s *shape) (res engine.Result, ptr reflect.Value) {
	cat := category(t)
	if t == tLocale.Elem() {
		cat = "locale"
	}
	e := expectFor(cat, s)
	rule := cat + ":" + e.kind
	ptr = reflect.New(t)
	none := reflect.Value{}
	var err error
	if p := engine.Safe(func() { err = json.Unmarshal([]byte(s.text), ptr.Interface()) }); p != "" {
		return engine.Bad(rule, "panic", "C12/panic/decode/"+cat, fmt.Sprintf("json.Unmarshal(%s, *%s) panics: %s", s.text, t.Name(), p)), none
	}
	if err != nil {
		if e.allowErr {
			return engine.OK(rule, "error"), none
		}
		return engine.Bad(rule, "error", "C12/documented-form-rejected/"+cat+"/"+s.class(), fmt.Sprintf("json.Unmarshal(%s, *%s) = %v", s.text, t.Name(), err)), none
	}
	got := leafRefVal(ptr, cat)
	if !e.accepts(got) {
		what := "C12/decode-value-not-in-document/"
		if e.kind == "documented" {
			what = "C12/documented-form-misread/"
		}
		return engine.Bad(rule, "wrong-value", what+cat+"/"+s.class(), fmt.Sprintf("json.Unmarshal(%s, *%s) = %v, acceptable: %v", s.text, t.Name(), got, e.allowed)), none
	}
	if eq(got, zeroOf(cat)) {
		return engine.OK(rule, "zero"), ptr
	}
	return engine.OK(rule, "value"), ptr
}

// leafRefVal: reference form of a decoded leaf value (ptr = pointer to it).
func leafRefVal(ptr reflect.Value, cat string) any {
	if cat == "locale" {
		return refVal(ptr, cat)
	}
	return refVal(ptr.Elem(), cat)
}
