package c12

// Part 3: AES sealing (pkg/crypto). Full product of plaintext length x byte
// pattern x key x API x attack. The IV is random; every expectation below is
// independent of its value (where it is not - short plaintexts under a wrong
// key or a damaged IV - the oracle answers Either and the outcome class does
// not depend on the result).

import (
	"bytes"
	"encoding/base64"
	"fmt"
	"strconv"
	"strings"

	"github.com/zitadel/oidc/v3/pkg/crypto"

	"verif/harness/engine"
)

var aesKeys = map[string]string{
	"k32":   "0123456789abcdefghijklmnopqrstuv",
	"k16":   "ABCDEFGHIJKLMNOP",
	"k24":   "abcdefghijklmnopqrstuvwx",
	"bad31": "0123456789abcdefghijklmnopqrstu",
	"bad0":  "",
	"bad33": "0123456789abcdefghijklmnopqrstuvw",
	"bad15": "ABCDEFGHIJKLMNO",
}

func aesSpace(thorough bool) engine.Space {
	var lens []string
	max := 48
	if thorough {
		max = 160
	}
	for i := 0; i <= max; i++ {
		lens = append(lens, strconv.Itoa(i))
	}
	lens = append(lens, "1024")
	if thorough {
		lens = append(lens, "4096", "65537")
	}
	attacks := []string{"none", "key-other", "key-shared-prefix", "key-shared-suffix", "key-other-size", "key-invalid",
		"trunc-1", "trunc-to-15", "trunc-to-16", "trunc-to-0", "trunc-half",
		"flip-iv-first", "flip-iv-last", "flip-body-first", "flip-body-mid", "flip-body-last",
		"b64-pad", "b64-std-char", "b64-illegal-char", "b64-drop-char", "b64-newline", "append-byte"}
	if thorough {
		for i := 0; i < 64; i++ {
			attacks = append(attacks, "flip@"+strconv.Itoa(i)+".0", "flip@"+strconv.Itoa(i)+".7")
		}
	}
	return engine.Space{
		engine.D("len", lens...),
		engine.D("pattern", "ascii", "zero", "ff", "utf8", "counter"),
		engine.D("key", "k32", "k16", "k24", "bad31", "bad0", "bad33", "bad15"),
		engine.D("api", "string", "bytes"),
		engine.D("attack", attacks...),
	}
}

func plaintext(n int, pattern string) []byte {
	p := make([]byte, n)
	switch pattern {
	case "ascii":
		const a = "The quick brown fox jumps over the lazy dog. "
		for i := range p {
			p[i] = a[i%len(a)]
		}
	case "zero":
	case "ff":
		for i := range p {
			p[i] = 0xff
		}
	case "utf8":
		const u = "żółć-日本語-🔑"
		for i := range p {
			p[i] = u[i%len(u)]
		}
	case "counter":
		for i := range p {
			p[i] = byte(i)
		}
	}
	return p
}

func otherKey(key, how string) string {
	b := []byte(key)
	switch how {
	case "key-other":
		for i := range b {
			b[i] ^= 0x15
		}
	case "key-shared-prefix":
		b[len(b)-1] ^= 1
	case "key-shared-suffix":
		b[0] ^= 1
	case "key-other-size":
		if len(b) > 16 {
			b = b[:16]
		} else {
			b = append(b, b...)
		}
	case "key-invalid":
		b = b[:len(b)-1]
	}
	return string(b)
}

func aesSkip(sp engine.Space) func(engine.Vec) bool {
	return func(v engine.Vec) bool {
		at := sp[4].Vals[v[4]]
		if strings.HasPrefix(at, "b64-") && sp[3].Vals[v[3]] == "bytes" {
			return true
		}
		// attacks are only meaningful where sealing is possible at all
		if strings.HasPrefix(sp[2].Vals[v[2]], "bad") && at != "none" {
			return true
		}
		return false
	}
}

func lenClass(n int) string {
	switch {
	case n == 0:
		return "empty"
	case n < 16:
		return "lt-block"
	case n == 16:
		return "one-block"
	case n%16 == 0:
		return "n-blocks"
	}
	return "gt-block-partial"
}

func runAES(sp engine.Space, v engine.Vec) engine.Result {
	n, _ := strconv.Atoi(sp[0].Vals[v[0]])
	p := plaintext(n, sp[1].Vals[v[1]])
	keyName := sp[2].Vals[v[2]]
	key := aesKeys[keyName]
	api := sp[3].Vals[v[3]]
	at := sp[4].Vals[v[4]]
	validKey := !strings.HasPrefix(keyName, "bad")

	// ---- seal
	var sealed []byte // raw bytes (IV || body)
	var err error
	if pn := engine.Safe(func() {
		if api == "string" {
			var s string
			s, err = crypto.EncryptAES(string(p), key)
			if err == nil {
				sealed, err = base64.RawURLEncoding.DecodeString(s)
				if err != nil {
					err = fmt.Errorf("sealed string is not raw base64url: %w", err)
				}
			}
		} else {
			sealed, err = crypto.EncryptBytesAES(bytes.Clone(p), key)
		}
	}); pn != "" {
		return engine.Bad("seal", "panic", "C12/panic/seal/encrypt-"+api, pn)
	}
	if !validKey {
		if err != nil {
			return engine.OK("invalid-key-size", "refused")
		}
		// sealing with a key AES does not define: the statement is silent; whatever came out must still open
	} else if err != nil {
		return engine.Bad("seal-must-succeed", "refused", "C12/seal-refused/"+api, fmt.Sprintf("encrypt(len %d, key %s): %v", n, keyName, err))
	}

	open := func(ct []byte, str string, k string) (out []byte, err error, pn string) {
		pn = engine.Safe(func() {
			if api == "string" {
				var s string
				s, err = crypto.DecryptAES(str, k)
				out = []byte(s)
			} else {
				out, err = crypto.DecryptBytesAES(bytes.Clone(ct), k)
			}
		})
		return
	}
	enc := base64.RawURLEncoding.EncodeToString

	if at == "none" {
		rule := "open-under-same-key"
		if !validKey {
			rule = "invalid-key-size"
		}
		out, err, pn := open(sealed, enc(sealed), key)
		switch {
		case pn != "":
			return engine.Bad(rule, "panic", "C12/panic/seal/decrypt-"+api, pn)
		case err != nil:
			return engine.Bad(rule, "refused", "C12/seal-roundtrip-refused/"+api, fmt.Sprintf("decrypt(encrypt(p)) with the same key (%s, len %d): %v", keyName, n, err))
		case !bytes.Equal(out, p):
			return engine.Bad(rule, "different-plaintext", "C12/seal-roundtrip-differs/"+api+"/"+lenClass(n), fmt.Sprintf("decrypt(encrypt(p)) != p for len %d key %s: got %q", n, keyName, trunc(out)))
		}
		return engine.OK(rule, "same-plaintext")
	}

	// ---- attacks
	ct := bytes.Clone(sealed)
	str := ""
	k := key
	rule := ""
	must := true // must the result be an error or a different plaintext?
	switch {
	case strings.HasPrefix(at, "key-"):
		k = otherKey(key, at)
		rule = "other-key"
		if at == "key-invalid" {
			rule = "other-key-invalid-size"
		}
		must = n >= 16
	case at == "trunc-1":
		ct, rule = ct[:len(ct)-1], "truncated"
	case at == "trunc-to-15":
		ct, rule = ct[:15], "truncated"
	case at == "trunc-to-16":
		ct, rule = ct[:16], "truncated"
		must = n > 0
	case at == "trunc-to-0":
		ct, rule = ct[:0], "truncated"
	case at == "trunc-half":
		ct, rule = ct[:len(ct)/2], "truncated"
	case at == "append-byte":
		ct, rule = append(ct, 'A'), "extended"
	case strings.HasPrefix(at, "flip"):
		pos, bit := -1, byte(1)
		switch at {
		case "flip-iv-first":
			pos = 0
		case "flip-iv-last":
			pos, bit = 15, 0x80
		case "flip-body-first":
			pos = 16
		case "flip-body-mid":
			pos, bit = 16+n/2, 0x10
		case "flip-body-last":
			pos, bit = 16+n-1, 0x80
		default:
			var i, b int
			fmt.Sscanf(at, "flip@%d.%d", &i, &b)
			pos, bit = i, 1<<b
		}
		if pos >= len(ct) || pos < 16 && at[:7] == "flip-bo" || len(ct) < 16 {
			return engine.OK("bit-flip-position-outside", "not-applicable")
		}
		ct[pos] ^= bit
		if pos < 16 {
			rule = "bit-flip-in-iv"
			must = n >= 16
		} else {
			rule = "bit-flip-in-body"
		}
	case at == "b64-pad":
		str, rule = enc(ct)+"=", "not-raw-base64url"
	case at == "b64-std-char":
		// '+' belongs to the standard alphabet, not to the URL alphabet
		s := []byte(enc(ct))
		s[len(s)/2] = '+'
		str, rule = string(s), "not-raw-base64url"
	case at == "b64-illegal-char":
		s := []byte(enc(ct))
		s[0] = '!'
		str, rule = string(s), "not-raw-base64url"
	case at == "b64-drop-char":
		s := enc(ct)
		str, rule = s[:len(s)-1], "truncated"
		must = n > 0 || len(s)%4 == 2 // dropping a char drops a byte (or makes the length illegal)
	case at == "b64-newline":
		// Go's base64 decoder skips CR/LF: the statement is silent about it
		str, rule, must = enc(ct)+"\n", "base64-with-newline", false
	}
	if str == "" {
		str = enc(ct)
	}
	out, err, pn := open(ct, str, k)
	switch {
	case pn != "":
		return engine.Bad(rule, "panic", "C12/panic/seal/decrypt-"+api, fmt.Sprintf("attack %s, len %d: %s", at, n, pn))
	case err != nil:
		return engine.OK(rule, "error")
	case !must:
		return engine.OK(rule+":undecidable-short", "no-error")
	case bytes.Equal(out, p):
		return engine.Bad(rule, "same-plaintext", "C12/seal-opens-despite/"+rule+"/"+api, fmt.Sprintf("attack %s on a sealed %d-byte plaintext (key %s) still yields the plaintext", at, n, keyName))
	}
	return engine.OK(rule, "different-plaintext")
}

func trunc(b []byte) []byte {
	if len(b) > 64 {
		return b[:64]
	}
	return b
}
