package c12

// Reflection helpers shared by the three parts: the registered JSON members of
// a claims type are derived from the struct's json tags with the dominance
// rules of encoding/json (shallowest embedding wins), so that fields added to
// the repository's types are followed without touching the check.

import (
	"encoding/json"
	"fmt"
	"reflect"
	"strings"
	"unsafe"

	"golang.org/x/text/language"

	"github.com/zitadel/oidc/v3/pkg/oidc"
)

type field struct {
	name      string
	index     []int
	omitempty bool
	typ       reflect.Type
	cat       string
}

var (
	tTime     = reflect.TypeOf(oidc.Time(0))
	tAudience = reflect.TypeOf(oidc.Audience(nil))
	tSpace    = reflect.TypeOf(oidc.SpaceDelimitedArray(nil))
	tLocale   = reflect.TypeOf((*oidc.Locale)(nil))
	tLocales  = reflect.TypeOf(oidc.Locales(nil))
	tBool     = reflect.TypeOf(oidc.Bool(false))
	tActor    = reflect.TypeOf((*oidc.ActorClaims)(nil))
	tAddress  = reflect.TypeOf((*oidc.UserInfoAddress)(nil))
	tMap      = reflect.TypeOf(map[string]any(nil))
)

// category names the decoding/encoding contract of a member type.
func category(t reflect.Type) string {
	switch t {
	case tTime:
		return "time"
	case tAudience:
		return "audience"
	case tSpace:
		return "spacelist"
	case tLocale:
		return "locale"
	case tLocales:
		return "locales"
	case tBool:
		return "boolstr"
	case tActor:
		return "actor"
	case tAddress:
		return "address"
	case tMap:
		return "object"
	}
	switch t.Kind() {
	case reflect.String:
		return "string"
	case reflect.Bool:
		return "bool"
	case reflect.Slice:
		if t.Elem().Kind() == reflect.String {
			return "strings"
		}
	}
	return "unsupported:" + t.String()
}

// jsonFields lists the members encoding/json sees for struct type t.
func jsonFields(t reflect.Type) []field {
	type cand struct {
		f      field
		depth  int
		tagged bool
	}
	var cands []cand
	var walk func(t reflect.Type, index []int, depth int)
	walk = func(t reflect.Type, index []int, depth int) {
		for i := 0; i < t.NumField(); i++ {
			sf := t.Field(i)
			tag := sf.Tag.Get("json")
			if tag == "-" {
				continue
			}
			name, opts, _ := strings.Cut(tag, ",")
			idx := append(append([]int{}, index...), i)
			if sf.Anonymous {
				ft := sf.Type
				if ft.Kind() == reflect.Pointer {
					ft = ft.Elem()
				}
				if !sf.IsExported() && ft.Kind() != reflect.Struct {
					continue
				}
				if name == "" && ft.Kind() == reflect.Struct {
					if sf.Type.Kind() == reflect.Pointer {
						panic("c12: embedded struct pointers are not supported by the value builder: " + sf.Name)
					}
					walk(ft, idx, depth+1)
					continue
				}
			} else if !sf.IsExported() {
				continue
			}
			tagged := name != ""
			if name == "" {
				name = sf.Name
			}
			cands = append(cands, cand{field{name: name, index: idx, omitempty: strings.Contains(","+opts+",", ",omitempty,"), typ: sf.Type, cat: category(sf.Type)}, depth, tagged})
		}
	}
	walk(t, nil, 0)
	var out []field
	seen := map[string]bool{}
	for _, c := range cands {
		if seen[c.f.name] {
			continue
		}
		seen[c.f.name] = true
		// dominant candidate for this name
		best, bestN := c, 1
		for _, d := range cands {
			if d.f.name != c.f.name || reflect.DeepEqual(d.f.index, c.f.index) {
				continue
			}
			switch {
			case d.depth < best.depth, d.depth == best.depth && d.tagged && !best.tagged:
				best, bestN = d, 1
			case d.depth == best.depth && d.tagged == best.tagged:
				bestN++
			}
		}
		if bestN == 1 {
			out = append(out, best.f)
		}
	}
	return out
}

// customMap returns the (addressable, settable) custom-claims map of a claims
// struct: the map[string]any field that is not a JSON member.
func customMap(rv reflect.Value) (reflect.Value, bool) {
	t := rv.Type()
	for i := 0; i < t.NumField(); i++ {
		sf := t.Field(i)
		if sf.Type != tMap {
			continue
		}
		if sf.IsExported() && sf.Tag.Get("json") != "-" {
			continue
		}
		f := rv.Field(i)
		if !sf.IsExported() {
			f = reflect.NewAt(sf.Type, unsafe.Pointer(f.UnsafeAddr())).Elem()
		}
		return f, true
	}
	return reflect.Value{}, false
}

// isEmpty is the omitempty notion of "not set".
func isEmpty(v reflect.Value) bool {
	switch v.Kind() {
	case reflect.Slice, reflect.Map, reflect.String, reflect.Array:
		return v.Len() == 0
	case reflect.Bool:
		return !v.Bool()
	case reflect.Int, reflect.Int8, reflect.Int16, reflect.Int32, reflect.Int64:
		return v.Int() == 0
	case reflect.Uint, reflect.Uint8, reflect.Uint16, reflect.Uint32, reflect.Uint64:
		return v.Uint() == 0
	case reflect.Float32, reflect.Float64:
		return v.Float() == 0
	case reflect.Pointer, reflect.Interface:
		return v.IsNil()
	}
	return false
}

// norm brings a Go value into the shape encoding/json decodes into `any`.
func norm(v any) any {
	b, err := json.Marshal(v)
	if err != nil {
		panic("c12: cannot normalise " + fmt.Sprint(v))
	}
	var out any
	if err := json.Unmarshal(b, &out); err != nil {
		panic("c12: cannot normalise " + string(b))
	}
	return out
}

// refVal is the reference encoding of one member value, written from the
// specifications the statement names (NumericDate, aud array, space-delimited
// scope, BCP47 tag, nested actor object): the value as it has to appear in
// the JSON document, in decoded (`any`) form. Values that carry no
// information (empty lists, undetermined locale, nil pointers) are nil.
func refVal(v reflect.Value, cat string) any {
	switch cat {
	case "string":
		return v.String()
	case "bool", "boolstr":
		return v.Bool()
	case "time":
		return float64(v.Int())
	case "audience", "strings":
		if v.Len() == 0 {
			return nil
		}
		out := make([]any, v.Len())
		for i := range out {
			out[i] = v.Index(i).String()
		}
		return out
	case "spacelist":
		parts := make([]string, v.Len())
		for i := range parts {
			parts[i] = v.Index(i).String()
		}
		return strings.Join(parts, " ")
	case "locale":
		l := v.Interface().(*oidc.Locale)
		if l == nil || l.Tag() == language.Und {
			return nil
		}
		return l.Tag().String()
	case "locales":
		if v.Len() == 0 {
			return nil
		}
		out := make([]any, v.Len())
		for i := range out {
			out[i] = v.Index(i).Interface().(language.Tag).String()
		}
		return out
	case "actor":
		if v.IsNil() {
			return nil
		}
		m, _ := refEncode(v.Elem())
		return m
	case "address":
		if v.IsNil() {
			return nil
		}
		m := map[string]any{}
		for _, f := range jsonFields(v.Elem().Type()) {
			fv := v.Elem().FieldByIndex(f.index)
			if !isEmpty(fv) {
				m[f.name] = refVal(fv, f.cat)
			}
		}
		return m
	case "object":
		if v.Len() == 0 {
			return nil
		}
		return norm(v.Interface())
	}
	panic("c12: refVal of " + cat)
}

var fieldCache = map[reflect.Type][]field{}

func fieldsOf(t reflect.Type) []field {
	// filled once in TestCheck before workers start; read-only afterwards
	if f, ok := fieldCache[t]; ok {
		return f
	}
	return jsonFields(t)
}

// refEncode is the reference codec of the statement: the document of a claims
// value is its custom map overlaid by every registered member that is set.
// open lists registered names that are NOT set while the custom map has a key
// of that name; the statement leaves the outcome for those open.
func refEncode(sv reflect.Value) (doc map[string]any, open map[string]bool) {
	var custom map[string]any
	if cm, ok := customMap(sv); ok && cm.Len() > 0 {
		custom = norm(cm.Interface()).(map[string]any)
	}
	return refEncodeWith(sv, custom)
}

// refEncodeWith: custom is the JSON-normalised custom map of sv.
func refEncodeWith(sv reflect.Value, custom map[string]any) (doc map[string]any, open map[string]bool) {
	doc = make(map[string]any, len(custom)+4)
	open = map[string]bool{}
	for k, v := range custom {
		doc[k] = v
	}
	for _, f := range fieldsOf(sv.Type()) {
		fv := sv.FieldByIndex(f.index)
		if !isEmpty(fv) {
			doc[f.name] = refVal(fv, f.cat)
		} else if _, ok := custom[f.name]; ok {
			open[f.name] = true
		}
	}
	return doc, open
}

func typeName(t reflect.Type) string { return t.Name() }
