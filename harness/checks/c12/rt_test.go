package c12

// Part 1: encode / round trip. For each claims type every vector of
// (per-member alphabet value) x (custom map) is built by reflection, marshalled
// and unmarshalled by the real code and judged against the reference codec.

import (
	"encoding/json"
	"fmt"
	"reflect"
	"strings"

	"golang.org/x/text/language"

	"github.com/zitadel/oidc/v3/pkg/oidc"

	"verif/harness/engine"
)

var claimTypes = []reflect.Type{
	reflect.TypeOf(oidc.IDTokenClaims{}),
	reflect.TypeOf(oidc.AccessTokenClaims{}),
	reflect.TypeOf(oidc.LogoutTokenClaims{}),
	reflect.TypeOf(oidc.UserInfo{}),
	reflect.TypeOf(oidc.IntrospectionResponse{}),
	reflect.TypeOf(oidc.JWTProfileAssertionClaims{}),
	reflect.TypeOf(oidc.JWTTokenRequest{}),
	reflect.TypeOf(oidc.ActorClaims{}),
}

// rtLabels is the alphabet (labels) of non-zero values per member category.
func rtLabels(cat string) []string {
	switch cat {
	case "string":
		return []string{"plain", "tricky"}
	case "bool", "boolstr":
		return []string{"true"}
	case "time":
		return []string{"t1700000000", "one", "neg", "max53"}
	case "audience":
		return []string{"one", "two", "emptystr", "emptylist"}
	case "strings":
		return []string{"one", "two", "emptylist"}
	case "spacelist":
		return []string{"one", "two", "emptylist"}
	case "locale":
		return []string{"en", "de-CH", "root"}
	case "actor":
		return []string{"flat", "nested", "deep3", "collide"}
	case "address":
		return []string{"formatted", "full", "emptyobj"}
	case "object":
		return []string{"event", "nested", "emptymap"}
	}
	return nil
}

// rtValue builds the Go value of (member, label).
func rtValue(f field, label string) reflect.Value {
	var v any
	switch f.cat {
	case "string":
		s := "v-" + f.name
		if label == "tricky" {
			s = "ü \"<&>\\   " + f.name
		}
		return reflect.ValueOf(s).Convert(f.typ)
	case "bool", "boolstr":
		return reflect.ValueOf(true).Convert(f.typ)
	case "time":
		n := map[string]int64{"t1700000000": 1700000000, "one": 1, "neg": -86400, "max53": 1 << 53}[label]
		v = oidc.Time(n)
	case "audience":
		v = map[string]oidc.Audience{"one": {"aud-" + f.name}, "two": {"a", "b"}, "emptystr": {""}, "emptylist": {}}[label]
	case "strings":
		return reflect.ValueOf(map[string][]string{"one": {"pwd"}, "two": {"pwd", "otp"}, "emptylist": {}}[label]).Convert(f.typ)
	case "spacelist":
		v = map[string]oidc.SpaceDelimitedArray{"one": {"openid"}, "two": {"openid", "profile"}, "emptylist": {}}[label]
	case "locale":
		switch label {
		case "en":
			v = oidc.NewLocale(language.English)
		case "de-CH":
			v = oidc.NewLocale(language.MustParse("de-CH"))
		default:
			v = oidc.NewLocale(language.Und)
		}
	case "actor":
		switch label {
		case "flat":
			v = &oidc.ActorClaims{Subject: "actor-1"}
		case "nested":
			v = &oidc.ActorClaims{Issuer: "https://a.example", Subject: "actor-1",
				Actor:  &oidc.ActorClaims{Subject: "actor-2", Claims: map[string]any{"x": 1}},
				Claims: map[string]any{"k": "v"}}
		case "deep3":
			v = &oidc.ActorClaims{Actor: &oidc.ActorClaims{Actor: &oidc.ActorClaims{Subject: "actor-3"}}}
		default: // custom keys of the nested actor collide with its set members
			v = &oidc.ActorClaims{Issuer: "real-iss", Subject: "real-sub",
				Actor:  &oidc.ActorClaims{Subject: "real-inner"},
				Claims: map[string]any{"iss": "evil", "sub": 666, "act": []any{"evil"}, "extra": true}}
		}
	case "address":
		switch label {
		case "formatted":
			v = &oidc.UserInfoAddress{Formatted: "1 Main St\nTown"}
		case "full":
			a := &oidc.UserInfoAddress{}
			av := reflect.ValueOf(a).Elem()
			for _, af := range jsonFields(av.Type()) {
				av.FieldByIndex(af.index).SetString("addr-" + af.name)
			}
			v = a
		default:
			v = &oidc.UserInfoAddress{}
		}
	case "object":
		v = map[string]map[string]any{
			"event":    {"http://schemas.openid.net/event/backchannel-logout": struct{}{}},
			"nested":   {"e": map[string]any{"k": []any{1, "a"}}},
			"emptymap": {},
		}[label]
	default:
		panic("c12: no alphabet for " + f.cat)
	}
	return reflect.ValueOf(v)
}

// customLabels: nil, {}, plain, nested, and for every registered name n a
// colliding key with a string / number / array (thorough: also null / object).
func customLabels(fs []field, thorough bool) []string {
	out := []string{"nil", "empty", "x", "nested"}
	for _, f := range fs {
		out = append(out, f.name+"=str", f.name+"=num", f.name+"=arr")
		if thorough {
			out = append(out, f.name+"=null", f.name+"=obj")
		}
	}
	return out
}

// normCustom caches the JSON-normalised form of every custom map of the
// alphabet (filled before the workers start, read-only afterwards).
var normCustom = map[string]map[string]any{}

func customValue(label string) map[string]any {
	switch label {
	case "nil":
		return nil
	case "empty":
		return map[string]any{}
	case "x":
		return map[string]any{"x": 1}
	case "nested":
		return map[string]any{"x": map[string]any{"y": []any{1, "a"}}, "urn:role": []any{"admin"}}
	}
	i := strings.LastIndex(label, "=")
	n, kind := label[:i], label[i+1:]
	m := map[string]any{"keep": "me"}
	switch kind {
	case "str":
		m[n] = "evil"
	case "num":
		m[n] = 666
	case "arr":
		m[n] = []any{"evil"}
	case "null":
		m[n] = nil
	case "obj":
		m[n] = map[string]any{"sub": "evil", "iss": "evil"}
	}
	return m
}

type rtType struct {
	t      reflect.Type
	fields []field
	space  engine.Space
}

func newRTType(c *engine.Check, t reflect.Type) *rtType {
	r := &rtType{t: t, fields: jsonFields(t)}
	for _, f := range r.fields {
		labels := rtLabels(f.cat)
		if labels == nil {
			c.Cap(fmt.Sprintf("member %s.%s of type %s has no alphabet (only its zero value is enumerated)", t.Name(), f.name, f.typ))
		}
		r.space = append(r.space, engine.D(f.name, append([]string{"zero"}, labels...)...))
	}
	r.space = append(r.space, engine.D("custom", customLabels(r.fields, c.Thorough())...))
	for _, l := range r.space[len(r.space)-1].Vals {
		if m := customValue(l); len(m) > 0 {
			normCustom[l] = norm(m).(map[string]any)
		} else {
			normCustom[l] = map[string]any{}
		}
	}
	// pin=set-collided: the member the custom key collides with is forced to its
	// first non-zero value, so that "registered wins" is exercised under every
	// combination of the other members (not only when the vector happens to set it)
	r.space = append(r.space, engine.D("pin", "free", "set-collided"))
	return r
}

func (r *rtType) collided(v engine.Vec) int {
	label := r.space[len(r.fields)].Vals[v[len(r.fields)]]
	i := strings.LastIndex(label, "=")
	if i < 0 {
		return -1
	}
	for fi, f := range r.fields {
		if f.name == label[:i] {
			return fi
		}
	}
	return -1
}

// skip pin=set-collided where there is no collision or the member is set anyway
func (r *rtType) skip(v engine.Vec) bool {
	fi := r.collided(v)
	if v[len(r.fields)+1] == 0 {
		// A key colliding with a member that is NOT set is judged Either; such
		// vectors are enumerated with at most one other member deviating.
		if fi >= 0 && v[fi] == 0 {
			n := 0
			for _, x := range v[:len(r.fields)] {
				if x != 0 {
					n++
				}
			}
			return n >= 2
		}
		return false
	}
	return fi < 0 || v[fi] != 0 || len(r.space[fi].Vals) < 2
}

func (r *rtType) build(v engine.Vec) (ptr reflect.Value, custom, ncustom map[string]any, collides string) {
	ptr = reflect.New(r.t)
	sv := ptr.Elem()
	pinned := -1
	if v[len(r.fields)+1] != 0 {
		pinned = r.collided(v)
	}
	for i, f := range r.fields {
		x := v[i]
		if i == pinned && x == 0 {
			x = 1
		}
		if x != 0 {
			sv.FieldByIndex(f.index).Set(rtValue(f, r.space[i].Vals[x]))
		}
	}
	label := r.space[len(r.fields)].Vals[v[len(r.fields)]]
	custom = customValue(label)
	ncustom = normCustom[label]
	if custom != nil {
		cm, ok := customMap(sv)
		if !ok {
			panic("c12: " + r.t.Name() + " has no custom map")
		}
		cm.Set(reflect.ValueOf(custom))
	}
	if i := strings.LastIndex(label, "="); i >= 0 {
		collides = label[:i]
	}
	return
}

func eq(a, b any) bool { return reflect.DeepEqual(a, b) }

func (r *rtType) run(v engine.Vec) engine.Result {
	tn := r.t.Name()
	ptr, custom, ncustom, collides := r.build(v)
	sv := ptr.Elem()
	want, open := refEncodeWith(sv, ncustom)
	set := map[string]bool{}
	for _, f := range r.fields {
		if !isEmpty(sv.FieldByIndex(f.index)) {
			set[f.name] = true
		}
	}
	rule := "no-custom-claims"
	switch {
	case collides != "" && set[collides]:
		rule = "collision-with-set-member"
	case collides != "":
		rule = "collision-with-unset-member"
	case len(custom) > 0:
		rule = "disjoint-custom-claims"
	}

	// ---- encode
	var b []byte
	var err error
	if p := engine.Safe(func() { b, err = json.Marshal(ptr.Interface()) }); p != "" {
		return engine.Bad(rule, "panic", "C12/panic/marshal/"+tn, p)
	}
	if err != nil {
		return engine.Bad(rule, "marshal-error", "C12/marshal-error/"+tn, err.Error())
	}
	var doc map[string]any
	if err := json.Unmarshal(b, &doc); err != nil {
		return engine.Bad(rule, "marshal-invalid-json", "C12/marshal-invalid-json/"+tn, string(b))
	}
	for _, f := range r.fields {
		if !set[f.name] {
			continue
		}
		if !eq(doc[f.name], want[f.name]) {
			if _, c := ncustom[f.name]; c {
				return engine.Bad(rule, "custom-replaced-registered", "C12/registered-not-winning/"+tn,
					fmt.Sprintf("member %q is set to %v but the document carries %v (custom map %v): %s", f.name, want[f.name], doc[f.name], custom, b))
			}
			return engine.Bad(rule, "registered-lost-on-encode", "C12/registered-lost-on-encode/"+f.cat,
				fmt.Sprintf("%s: member %q is set to %v but the document carries %v: %s", tn, f.name, want[f.name], doc[f.name], b))
		}
	}
	for k, cv := range ncustom {
		if set[k] || open[k] {
			continue
		}
		if dv, ok := doc[k]; !ok || !eq(dv, cv) {
			return engine.Bad(rule, "custom-lost-on-encode", "C12/custom-lost-on-encode/"+tn,
				fmt.Sprintf("custom claim %q=%v missing from the document %s", k, cv, b))
		}
	}

	// ---- decode. Marshal may normalise its receiver (IntrospectionResponse
	// fills username from preferred_username); the round trip is judged
	// against the value as it stands after Marshal.
	after := map[string]any{}
	for _, f := range r.fields {
		after[f.name] = refVal(sv.FieldByIndex(f.index), f.cat)
	}
	ptr2 := reflect.New(r.t)
	if p := engine.Safe(func() { err = json.Unmarshal(b, ptr2.Interface()) }); p != "" {
		return engine.Bad(rule, "panic", "C12/panic/unmarshal-own-output/"+tn, p)
	}
	if err != nil {
		if len(open) > 0 {
			return engine.OK(rule, "own-output-rejected")
		}
		return engine.Bad(rule, "own-output-rejected", "C12/roundtrip-decode-error/"+tn, fmt.Sprintf("Unmarshal(Marshal(v)) fails: %v; document %s", err, b))
	}
	sv2 := ptr2.Elem()
	for _, f := range r.fields {
		if open[f.name] {
			continue
		}
		got := refVal(sv2.FieldByIndex(f.index), f.cat)
		if !eq(got, after[f.name]) {
			return engine.Bad(rule, "registered-changed", "C12/roundtrip-registered-changed/"+f.cat,
				fmt.Sprintf("%s: member %q was %v, is %v after Unmarshal(Marshal(v)); document %s", tn, f.name, after[f.name], got, b))
		}
	}
	var got2 map[string]any
	if cm, ok := customMap(sv2); ok && cm.Len() > 0 {
		got2 = cm.Interface().(map[string]any) // decoded from JSON: already in normal form
	}
	for k, cv := range ncustom {
		if set[k] || open[k] {
			continue
		}
		if gv, ok := got2[k]; !ok || !eq(gv, cv) {
			return engine.Bad(rule, "custom-lost-on-decode", "C12/custom-lost-on-decode/"+tn,
				fmt.Sprintf("custom claim %q=%v not restored (custom map after round trip: %v); document %s", k, cv, got2, b))
		}
	}
	if rule == "collision-with-set-member" {
		return engine.OK(rule, "registered-won+roundtrip-ok")
	}
	return engine.OK(rule, "roundtrip-ok")
}
