package c12

import (
	"encoding/json"
	"errors"
	"strings"
	"testing"

	"golang.org/x/text/language"
)

func TestProbe(t *testing.T) {
	langs := []string{"en", "EN", "eng", "de", "zh", "iw", "sh", "xx", "qqq", "abcd", "e", "1a", "", "abcdefghi", "i-klingon", "art-lojban", "no", "tl", "mo", "sgn-BE-FR", "und", "root", "cmn", "zh-cmn", "x-foo", "en-x-foo", "en-u-co-phonebk", "en-u-xx-yyyy", "en-a", "en-t-de"}
	rest := []string{"", "-Latn", "-Abcd", "-Lat1", "-US", "-ZZ", "-AB", "-XX", "-419", "-999", "-U", "-CH-xyzzy", "-1996", "-valencia", "-abcdefghi", "-Latn-US", "-Abcd-US", "-Latn-AB", "-US-Latn", "_US", "-us", "-LATN", "-", "--US", "-US-", " -US", "-US-US", "-Latn-Latn", "-DD", "-SU", "-BU", "-Qaai", "-1996-1996"}
	for _, l := range langs {
		for _, r := range rest {
			s := l + r
			pt, perr := language.Parse(s)
			var jt language.Tag
			b, _ := json.Marshal(s)
			jerr := json.Unmarshal(b, &jt)
			var ve language.ValueError
			kind := "ok"
			if perr != nil {
				kind = "syntax"
				if errors.As(perr, &ve) {
					kind = "value"
				}
			}
			flag := ""
			if (perr == nil) != (jerr == nil) || pt != jt {
				flag = " DIFF"
			}
			if perr == nil && !strings.EqualFold(pt.String(), s) {
				flag += " CANON"
			}
			if flag != "" || kind == "value" {
				t.Logf("%-22q parse=%-6s -> %-14s | json -> %-14s err=%v%s", s, kind, pt, jt, jerr, flag)
			}
		}
	}
}
