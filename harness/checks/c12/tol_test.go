package c12

// Parts tol/*: the tolerant forms of the statement with GENERATED alphabets.
// A tolerant decoder is fed values that are valid for the outer grammar (a JSON
// string, number, array) and valid, unknown or malformed in each of their inner
// components:
//
//	tol/locale    language x script x region x variant x separator
//	tol/locales   list form (space-delimited / array) x length+position x one generated member
//	tol/time-str  year x month-day x separator x time x fraction x zone   (RFC 3339 strings)
//	tol/time-num  spelling (number / quoted) x sign x magnitude x notation
//	tol/bool      word x casing x wrapping
//	tol/list      length+position x kind of the one odd member (audience / amr / locales / scope arrays)
//
// Every value is decoded in every carrier of its form: each member of that
// category in every claims / request / discovery type that has one (found by
// reflection), the leaf type on its own, Locales.UnmarshalText (the form
// decoder's path); per carrier in three contexts: alone, between valid
// siblings (a string member before, a custom claim after), and as the second
// occurrence of a duplicated member whose first occurrence is valid.
//
// Oracle, from the statement: decoding yields an error, the zero value, or
// exactly the value the document contained (for a documented form: the value,
// without error); re-encoding the decoded value gives back that value.

import (
	"encoding"
	"encoding/json"
	"fmt"
	"reflect"
	"strings"

	"github.com/zitadel/oidc/v3/pkg/oidc"

	"verif/harness/engine"
)

// tolTypes: where members of the tolerant categories live.
var tolTypes = append(append([]reflect.Type{}, claimTypes...),
	reflect.TypeOf(oidc.AuthRequest{}),
	reflect.TypeOf(oidc.RequestObject{}),
	reflect.TypeOf(oidc.DiscoveryConfiguration{}),
	reflect.TypeOf(oidc.UserInfoProfile{}),
	reflect.TypeOf(oidc.UserInfoEmail{}),
	reflect.TypeOf(oidc.UserInfoPhone{}),
)

var (
	tTextUnmarshaler = reflect.TypeOf((*encoding.TextUnmarshaler)(nil)).Elem()
	tJSONUnmarshaler = reflect.TypeOf((*json.Unmarshaler)(nil)).Elem()
)

var tolCats = []string{"locale", "locales", "time", "boolstr", "bool", "audience", "strings", "spacelist"}

type carrier struct {
	label     string
	mode      string // member | leaf | text
	cat       string
	dt        *decType
	fi        int
	sib       int // a plain string member to put before the member (-1: none)
	hasCustom bool
	leaf      reflect.Type
	foreign   bool // a member of another category (thorough): decoded alone only
}

// tolDecTypes: per type the members whose category the reference codec knows.
var tolDecTypes = func() map[reflect.Type]*decType {
	m := map[reflect.Type]*decType{}
	for _, t := range tolTypes {
		d := &decType{t: t}
		for _, f := range jsonFields(t) {
			if strings.HasPrefix(f.cat, "unsupported:") {
				continue
			}
			// string-kinded types with a decoder of their own (Display: an enum that
			// drops unknown words) are not one of the statement's forms
			if el := f.typ; f.cat == "string" || f.cat == "strings" {
				if f.cat == "strings" {
					el = el.Elem()
				}
				if p := reflect.PointerTo(el); p.Implements(tTextUnmarshaler) || p.Implements(tJSONUnmarshaler) {
					continue
				}
			}
			d.fields = append(d.fields, f)
		}
		m[t] = d
	}
	return m
}()

// carriersFor: every member whose category is in home, every leaf type, and
// (thorough / foreign=true) one member of every other category.
func carriersFor(home []string, foreign bool) []carrier {
	var out []carrier
	seenForeign := map[string]bool{}
	for _, h := range home {
		seenForeign[h] = true
	}
	var later []carrier
	for _, t := range tolTypes {
		d := tolDecTypes[t]
		_, hasCustom := customMap(reflect.New(t).Elem())
		for fi, f := range d.fields {
			c := carrier{label: t.Name() + "." + f.name, mode: "member", cat: f.cat, dt: d, fi: fi, sib: -1, hasCustom: hasCustom}
			for si, g := range d.fields {
				if si != fi && g.typ.Kind() == reflect.String && g.typ.PkgPath() == "" {
					c.sib = si
					break
				}
			}
			if inList(home, f.cat) {
				out = append(out, c)
			} else if foreign && !seenForeign[f.cat] {
				seenForeign[f.cat] = true
				c.foreign = true
				later = append(later, c)
			}
		}
	}
	for _, t := range leafTypes {
		cat := category(t)
		if t == tLocale.Elem() {
			cat = "locale"
		}
		out = append(out, carrier{label: "leaf:" + t.Name(), mode: "leaf", cat: cat, leaf: t})
	}
	if inList(home, "locales") {
		out = append(out, carrier{label: "text:Locales", mode: "text", cat: "locales"})
	}
	return append(out, later...)
}

func inList(l []string, s string) bool {
	for _, x := range l {
		if x == s {
			return true
		}
	}
	return false
}

var tolContexts = []string{"alone", "siblings", "dup-after-valid"}

// firstValid: the valid first occurrence used by the dup-after-valid context.
var firstValid = map[string]*shape{}

func init() {
	for cat, text := range map[string]string{
		"locale": `"de"`, "locales": `["de"]`, "time": `1500000000`, "boolstr": `true`, "bool": `true`,
		"audience": `["a0"]`, "strings": `["a0"]`, "spacelist": `"a0 b0"`, "string": `"v0"`,
	} {
		firstValid[cat] = mkShape("first", text)
	}
}

func mkShape(label, text string) *shape {
	s := &shape{label: label, text: text}
	if err := json.Unmarshal([]byte(text), &s.val); err != nil {
		s.undecodable = true
	}
	return s
}

var (
	sibShape    = mkShape("sib", `"sib"`)
	customShape = mkShape("custom", `{"k":[1]}`)
)

func isZeroJSON(v any) bool {
	switch x := v.(type) {
	case nil:
		return true
	case bool:
		return !x
	case float64:
		return x == 0
	case string:
		return x == ""
	case []any:
		return len(x) == 0
	case map[string]any:
		return len(x) == 0
	}
	return false
}

// reencodeMember: the decoded value, marshalled again, carries the member's value.
// A member that decoded to the zero value is not set: the types with a custom map keep the
// document's own value under that name there and may emit it again (open by decision: a
// custom key colliding with a member that is not set), so orig lists the document's values.
func reencodeMember(tn string, ptr reflect.Value, f field, orig ...any) (sig, detail string) {
	got := refVal(ptr.Elem().FieldByIndex(f.index), f.cat)
	var b []byte
	var err error
	if p := engine.Safe(func() { b, err = json.Marshal(ptr.Interface()) }); p != "" {
		return "C12/panic/marshal/" + tn, p
	}
	if err != nil {
		return "C12/marshal-error/" + tn, err.Error()
	}
	var doc map[string]any
	if err := json.Unmarshal(b, &doc); err != nil {
		return "C12/marshal-invalid-json/" + tn, string(b)
	}
	dv, present := doc[f.name]
	if eq(got, zeroOf(f.cat)) || got == nil {
		for _, o := range orig {
			if eq(dv, o) {
				return "", ""
			}
		}
		if present && !isZeroJSON(dv) {
			return "C12/reencode-invented-member/" + f.cat, fmt.Sprintf("%s: member %q decoded to the zero value but is re-encoded as %v: %s", tn, f.name, dv, b)
		}
		return "", ""
	}
	if !present || !eq(dv, got) {
		return "C12/registered-lost-on-encode/" + f.cat, fmt.Sprintf("%s: member %q decoded to %v but is re-encoded as %v (present=%v): %s", tn, f.name, got, dv, present, b)
	}
	return "", ""
}

func reencodeLeaf(t reflect.Type, cat string, ptr reflect.Value) (sig, detail string) {
	got := leafRefVal(ptr, cat)
	var b []byte
	var err error
	if p := engine.Safe(func() { b, err = json.Marshal(ptr.Interface()) }); p != "" {
		return "C12/panic/marshal/" + t.Name(), p
	}
	if err != nil {
		return "C12/marshal-error/" + t.Name(), err.Error()
	}
	var dv any
	if err := json.Unmarshal(b, &dv); err != nil {
		return "C12/marshal-invalid-json/" + t.Name(), string(b)
	}
	if eq(got, zeroOf(cat)) || got == nil {
		if !isZeroJSON(dv) {
			return "C12/reencode-invented-member/" + cat, fmt.Sprintf("%s decoded to the zero value but is re-encoded as %s", t.Name(), b)
		}
		return "", ""
	}
	if !eq(dv, got) {
		return "C12/registered-lost-on-encode/" + cat, fmt.Sprintf("%s decoded to %v but is re-encoded as %s", t.Name(), got, b)
	}
	return "", ""
}

// judgeDup: {"m": <valid first>, "m": <shape>} - the statement (and JSON) leave
// open which occurrence counts: the member must hold what either denotes.
func (d *decType) judgeDup(fi int, first, s *shape) decResult {
	f := d.fields[fi]
	tn := d.t.Name()
	text := fmt.Sprintf(`{%q:%s,%q:%s}`, f.name, first.text, f.name, s.text)
	e1, e2 := expectFor(f.cat, first), expectFor(f.cat, s)
	rule := f.cat + ":" + e2.kind
	ptr := reflect.New(d.t)
	var err error
	if p := engine.Safe(func() { err = json.Unmarshal([]byte(text), ptr.Interface()) }); p != "" {
		return decResult{rule: rule, outcome: "panic", sig: "C12/panic/decode/" + f.cat, panicked: true,
			detail: fmt.Sprintf("json.Unmarshal(%s, *%s) panics: %s", text, tn, p)}
	}
	if err != nil {
		if e1.allowErr || e2.allowErr {
			return decResult{rule: rule, outcome: "error"}
		}
		return decResult{rule: rule, outcome: "error", sig: "C12/documented-form-rejected/" + f.cat + "/" + s.class(),
			detail: fmt.Sprintf("json.Unmarshal(%s, *%s) = %v although both occurrences have a documented form", text, tn, err)}
	}
	sv := ptr.Elem()
	outcome := "zero"
	for gi, g := range d.fields {
		got := refVal(sv.FieldByIndex(g.index), g.cat)
		if gi != fi {
			if !eq(got, zeroOf(g.cat)) && !(g.cat == "spacelist" && got == "") {
				return decResult{rule: rule, outcome: "invented-member", sig: "C12/decode-invented-member/" + g.cat,
					detail: fmt.Sprintf("json.Unmarshal(%s, *%s): member %q = %v is not in the document", text, tn, g.name, got)}
			}
			continue
		}
		if !e1.accepts(got) && !e2.accepts(got) && !mixOf(got, first.val, s.val) {
			return decResult{rule: rule, outcome: "wrong-value", sig: "C12/decode-value-not-in-document/" + f.cat + "/" + s.class(),
				detail: fmt.Sprintf("json.Unmarshal(%s, *%s): member %q decoded to %v, which neither occurrence denotes", text, tn, f.name, got)}
		}
		if !eq(got, zeroOf(f.cat)) {
			outcome = "value"
		}
	}
	if m, ok := customMap(sv); ok {
		// the custom map may repeat the document's members, nothing else
		for _, k := range m.MapKeys() {
			if k.String() != f.name {
				return decResult{rule: rule, outcome: "invented-member", sig: "C12/decode-invented-custom/" + tn,
					detail: fmt.Sprintf("json.Unmarshal(%s, *%s): custom map has key %q that is not in the document", text, tn, k.String())}
			}
		}
	}
	return decResult{rule: rule, outcome: outcome, ptr: ptr}
}

// mixOf: encoding/json decodes a repeated array member INTO the slice the first occurrence
// left behind (a null element keeps what was there), so a plain list may end up with
// elements of both occurrences. Duplicate names are outside the statement; what is asked
// is only that every element is a string the document contains (null reads as "").
func mixOf(got any, docs ...any) bool {
	l, ok := got.([]any)
	if !ok {
		return false
	}
	have := map[any]bool{}
	for _, d := range docs {
		dl, ok := d.([]any)
		if !ok {
			return false
		}
		for _, x := range dl {
			switch x := x.(type) {
			case string:
				have[x] = true
			case nil:
				have[""] = true
			}
		}
	}
	for _, g := range l {
		if !have[g] {
			return false
		}
	}
	return true
}

// runTol decodes one generated shape in one carrier and context.
func runTol(car *carrier, ctx string, s *shape) engine.Result {
	switch car.mode {
	case "leaf":
		r, ptr := judgeLeaf(car.leaf, s)
		r.Rule += "/" + s.class()
		if r.Sig == "" && ptr.IsValid() {
			if sig, detail := reencodeLeaf(car.leaf, car.cat, ptr); sig != "" {
				return engine.Bad(r.Rule, "reencode-differs", sig, fmt.Sprintf("after json.Unmarshal(%s): %s", s.text, detail))
			}
		}
		return r
	case "text":
		return runLocalesText(s)
	}
	d := car.dt
	f := d.fields[car.fi]
	var r decResult
	switch ctx {
	case "alone":
		r = d.judge([]int{car.fi}, []*shape{s})
	case "siblings":
		members, shp := []int{}, []*shape{}
		if car.sib >= 0 {
			members, shp = append(members, car.sib), append(shp, sibShape)
		}
		members, shp = append(members, car.fi), append(shp, s)
		if car.hasCustom {
			members, shp = append(members, len(d.fields)), append(shp, customShape)
		}
		r = d.judge(members, shp)
		if r.sig != "" {
			// attribute a violation to the member if it shows alone too
			if a := d.judge([]int{car.fi}, []*shape{s}); a.sig != "" {
				r.sig, r.detail = a.sig, a.detail
			}
		}
	default:
		r = d.judgeDup(car.fi, firstValid[f.cat], s)
	}
	e := expectFor(f.cat, s)
	rule := f.cat + ":" + e.kind + "/" + s.class() + "/" + ctx
	if r.sig != "" {
		return engine.Bad(rule, r.outcome, r.sig, r.detail)
	}
	if r.ptr.IsValid() {
		orig := []any{s.val}
		if ctx == "dup-after-valid" {
			orig = append(orig, firstValid[f.cat].val)
		}
		if sig, detail := reencodeMember(d.t.Name(), r.ptr, f, orig...); sig != "" {
			return engine.Bad(rule, "reencode-differs", sig, fmt.Sprintf("after decoding %s into %s.%s: %s", s.text, d.t.Name(), f.name, detail))
		}
	}
	return engine.OK(rule, r.outcome)
}

// runLocalesText: Locales.UnmarshalText, the path of the form (schema) decoder
// for ui_locales; the text is the JSON string's content.
func runLocalesText(s *shape) engine.Result {
	str, ok := s.val.(string)
	if !ok {
		return engine.OK("locales:text/not-a-string", "not-applicable")
	}
	e := expectFor("locales", s)
	rule := "locales:" + e.kind + "/" + s.class() + "/text"
	var l oidc.Locales
	var err error
	if p := engine.Safe(func() { err = l.UnmarshalText([]byte(str)) }); p != "" {
		return engine.Bad(rule, "panic", "C12/panic/decode/locales", fmt.Sprintf("Locales.UnmarshalText(%q) panics: %s", str, p))
	}
	if err != nil {
		if e.allowErr {
			return engine.OK(rule, "error")
		}
		return engine.Bad(rule, "error", "C12/documented-form-rejected/locales/"+s.class(), fmt.Sprintf("Locales.UnmarshalText(%q) = %v", str, err))
	}
	got := refVal(reflect.ValueOf(l), "locales")
	if !e.accepts(got) {
		return engine.Bad(rule, "wrong-value", "C12/decode-value-not-in-document/locales/"+s.class(), fmt.Sprintf("Locales.UnmarshalText(%q) = %v", str, got))
	}
	if got == nil {
		return engine.OK(rule, "zero")
	}
	return engine.OK(rule, "value")
}

// ---------------------------------------------------------------------------
// generators

type tolGen struct {
	part  string
	home  []string     // categories of the carriers (quick)
	dims  []engine.Dim // generator dimensions; element 0 of each is the valid default
	k     int          // deviation bound over dims (0 = full product)
	full  []string     // with k > 0: dimensions that are enumerated in full nevertheless
	build func(get func(string) string) *shape
}

func none(s string) string {
	if s == "none" {
		return ""
	}
	return s
}

func joinTag(sep string, parts ...string) string {
	var ps []string
	for _, p := range parts {
		if p == "none" {
			continue
		}
		if p == "empty" {
			p = ""
		}
		ps = append(ps, p)
	}
	return strings.Join(ps, sep)
}

func jsonString(s string) string {
	b, _ := json.Marshal(s)
	return string(b)
}

func localeDims(thorough bool) []engine.Dim {
	// {known (also other casing, 3-letter, deprecated), unknown, malformed, empty}
	lang := []string{"en", "DE", "zh", "fil", "iw", "und", "xx", "xyz", "e", "e1", "abcdefghi", "empty"}
	script := []string{"none", "Latn", "latn", "Qaai", "Abcd", "Lat1"}
	region := []string{"none", "US", "ch", "419", "DD", "AB", "XX", "999", "U"}
	variant := []string{"none", "1996", "valencia", "xyzzy", "abcdefghi", "x-priv", "u-co-phonebk"}
	if thorough {
		lang = append(lang, "eng", "sh", "mo", "tl", "no", "cmn", "qqq", "i-klingon", "zh-yue", "abcd", "1a", "en-")
		script = append(script, "Hans", "Cyrl", "Zzzz", "Abc", "Abcde", "L@tn")
		region = append(region, "GB", "001", "ZZ", "SU", "BU", "12", "A1", "USA")
		variant = append(variant, "nedis", "rozaj", "1901", "12345678", "a", "t-de", "1996-1996", "u-xx-yyyy", "x-")
	}
	return []engine.Dim{engine.D("lang", lang...), engine.D("script", script...), engine.D("region", region...), engine.D("variant", variant...), engine.D("sep", "-", "_")}
}

func localeGen(thorough bool) tolGen {
	return tolGen{part: "tol/locale", home: []string{"locale"}, dims: localeDims(thorough),
		build: func(get func(string) string) *shape {
			tag := joinTag(get("sep"), get("lang"), get("script"), get("region"), get("variant"))
			s := mkShape("", jsonString(tag))
			s.cls = tagInfoOf(tag).cls
			return s
		}}
}

var goodTags = []string{"en", "de-CH", "fr"}

func localesGen(thorough bool) tolGen {
	dims := []engine.Dim{engine.D("form", "array", "space"), engine.D("len-pos", "3/1", "1/0", "2/0", "2/1", "3/0", "3/2")}
	ld := localeDims(thorough)
	dims = append(dims, ld[:4]...)
	if thorough {
		dims = append(dims, ld[4], engine.D("others", "valid", "unknown-subtag"))
	}
	return tolGen{part: "tol/locales", home: []string{"locales"}, dims: dims, k: engine_pick(thorough, 2, 3), full: []string{"form", "len-pos"},
		build: func(get func(string) string) *shape {
			sep := "-"
			others := "valid"
			if thorough {
				sep, others = get("sep"), get("others")
			}
			tag := joinTag(sep, get("lang"), get("script"), get("region"), get("variant"))
			var n, pos int
			fmt.Sscanf(get("len-pos"), "%d/%d", &n, &pos)
			members := make([]string, n)
			for i := range members {
				members[i] = goodTags[i]
				if others != "valid" {
					members[i] = goodTags[i] + "-Abcd"
				}
			}
			members[pos] = tag
			var s *shape
			if get("form") == "array" {
				b, _ := json.Marshal(members)
				s = mkShape("", string(b))
			} else {
				s = mkShape("", jsonString(strings.Join(members, " ")))
			}
			s.cls = "list-" + get("form") + "-with-" + tagInfoOf(tag).cls
			return s
		}}
}

func timeStrGen(thorough bool) tolGen {
	dims := []engine.Dim{
		engine.D("year", "2023", "1969", "2024", "0001", "0000", "9999", "23", "12023"),
		engine.D("month-day", "11-14", "01-01", "02-29", "02-30", "11-31", "12-31", "13-01", "00-10", "11-00", "1-14", "11-4"),
		engine.D("sep", "T", "t", " ", "_", "none"),
		engine.D("time", "22:13:20", "00:00:00", "23:59:59", "23:59:60", "24:00:00", "23:60:00", "2:13:20", "22:13", "22:13:2", "22-13-20"),
		engine.D("frac", "none", ".5", ".123456789", ".1234567891", ",5", "."),
		engine.D("zone", "Z", "z", "+01:00", "-00:00", "-07:30", "+23:59", "+24:00", "+01:60", "+0100", "+01", "none", " UTC", "ZZ"),
	}
	return tolGen{part: "tol/time-str", home: []string{"time"}, dims: dims, k: engine_pick(thorough, 2, 3),
		build: func(get func(string) string) *shape {
			str := get("year") + "-" + get("month-day") + none(get("sep")) + get("time") + none(get("frac")) + none(get("zone"))
			s := mkShape("", jsonString(str))
			s.cls = timeStringClass(str)
			return s
		}}
}

func engine_pick(thorough bool, q, t int) int {
	if thorough {
		return t
	}
	return q
}

func timeNumGen(thorough bool) tolGen {
	mags := []string{"1700000000", "0", "1", "9007199254740992", "9223372036854774784", "9223372036854775807", "9223372036854775808", "18446744073709551616", "10000000000000000000"}
	nots := []string{"plain", ".0", ".5", "e0", "E+00", "sci", "lead0", "trail-dot"}
	if thorough {
		mags = append(mags, "86400", "253402300800", "9007199254740993", "9223372036854775806", "9223372036854776832", "100000000000000000000000")
		nots = append(nots, ".000000001", "e-1", "e1", "lead-dot", "hex", "underscore")
	}
	dims := []engine.Dim{engine.D("spelling", "number", "quoted", "quoted-padded"), engine.D("sign", "none", "-", "+"), engine.D("magnitude", mags...), engine.D("notation", nots...)}
	return tolGen{part: "tol/time-num", home: []string{"time"}, dims: dims,
		build: func(get func(string) string) *shape {
			m := get("magnitude")
			switch get("notation") {
			case ".0", ".5", "e0", "E+00", ".000000001", "e-1", "e1":
				m += get("notation")
			case "sci":
				if len(m) > 1 {
					m = m[:1] + "." + m[1:] + fmt.Sprintf("e%d", len(m)-1)
				} else {
					m += "e+0"
				}
			case "lead0":
				m = "0" + m
			case "trail-dot":
				m += "."
			case "lead-dot":
				m = "." + m
			case "hex":
				m = "0x" + m
			case "underscore":
				if len(m) > 3 {
					m = m[:len(m)-3] + "_" + m[len(m)-3:]
				} else {
					m += "_0"
				}
			}
			m = none(get("sign")) + m
			switch get("spelling") {
			case "quoted":
				m = jsonString(m)
			case "quoted-padded":
				m = jsonString(" " + m + " ")
			}
			s := mkShape("", m)
			if _, isStr := s.val.(string); isStr {
				s.cls = "string-numeric"
			}
			return s
		}}
}

func boolGen(thorough bool) tolGen {
	words := []string{"true", "false", "1", "0", "yes", "no", "t", "tru", "truee", "null", "on"}
	wraps := []string{"bare", "quoted", "quoted-lead-space", "quoted-trail-space", "quoted-twice", "in-array", "in-object"}
	if thorough {
		words = append(words, "f", "fals", "y", "n", "off", "-1", "2", "1.0", "true false", "")
		wraps = append(wraps, "quoted-newline", "quoted-nul", "in-array-quoted", "quoted-tab")
	}
	dims := []engine.Dim{engine.D("word", words...), engine.D("casing", "lower", "Title", "UPPER", "mIXED"), engine.D("wrap", wraps...)}
	return tolGen{part: "tol/bool", home: []string{"boolstr", "bool"}, dims: dims,
		build: func(get func(string) string) *shape {
			w := get("word")
			switch get("casing") {
			case "Title":
				if w != "" {
					w = strings.ToUpper(w[:1]) + w[1:]
				}
			case "UPPER":
				w = strings.ToUpper(w)
			case "mIXED":
				if len(w) > 1 {
					w = w[:1] + strings.ToUpper(w[1:])
				}
			}
			text := w
			switch get("wrap") {
			case "quoted":
				text = jsonString(w)
			case "quoted-lead-space":
				text = jsonString(" " + w)
			case "quoted-trail-space":
				text = jsonString(w + " ")
			case "quoted-twice":
				text = jsonString(jsonString(w))
			case "in-array":
				text = "[" + w + "]"
			case "in-object":
				text = "{" + jsonString(w) + ":true}"
			case "quoted-newline":
				text = jsonString(w + "\n")
			case "quoted-nul":
				text = jsonString(w + "\x00")
			case "in-array-quoted":
				text = "[" + jsonString(w) + "]"
			case "quoted-tab":
				text = jsonString("\t" + w)
			}
			if text == "" {
				text = " "
			}
			s := mkShape("", text)
			if str, ok := s.val.(string); ok && str != "true" && str != "false" {
				s.cls = "string-near-boolean"
			}
			return s
		}}
}

func listGen(thorough bool) tolGen {
	odd := []string{"none", "number", "zero", "fraction", "null", "true", "false", "empty-array", "array", "empty-object", "object", "empty-string", "string-with-space"}
	lp := []string{"3/1", "1/0", "2/0", "2/1", "3/0", "3/2"}
	if thorough {
		odd = append(odd, "string-numeric", "nested-null", "big-number", "invalid-utf8", "deep")
		lp = append(lp, "4/0", "4/3", "8/4")
	}
	dims := []engine.Dim{engine.D("len-pos", lp...), engine.D("odd-member", odd...)}
	if thorough {
		dims = append(dims, engine.D("second-odd", "none", "null", "number"))
	}
	oddText := map[string]string{"number": `1`, "zero": `0`, "fraction": `1.5`, "null": `null`, "true": `true`, "false": `false`,
		"empty-array": `[]`, "array": `["en"]`, "empty-object": `{}`, "object": `{"en":"de"}`, "empty-string": `""`, "string-with-space": `"en de"`,
		"string-numeric": `"1"`, "nested-null": `[null]`, "big-number": `1e400`, "invalid-utf8": "\"\xff\"", "deep": deep10}
	return tolGen{part: "tol/list", home: []string{"audience", "strings", "locales", "spacelist"}, dims: dims,
		build: func(get func(string) string) *shape {
			var n, pos int
			fmt.Sscanf(get("len-pos"), "%d/%d", &n, &pos)
			members := make([]string, n)
			for i := range members {
				members[i] = jsonString(goodTags[i%len(goodTags)])
			}
			if o := get("odd-member"); o != "none" {
				members[pos] = oddText[o]
			}
			if thorough {
				if o := get("second-odd"); o != "none" && n > 1 {
					members[(pos+1)%n] = oddText[o]
				}
			}
			return mkShape("", "["+strings.Join(members, ",")+"]")
		}}
}

func tolGens(thorough bool) []tolGen {
	return []tolGen{localeGen(thorough), localesGen(thorough), timeStrGen(thorough), timeNumGen(thorough), boolGen(thorough), listGen(thorough)}
}

// tolPart runs one generator over its carriers and contexts.
func tolPart(c *engine.Check, g tolGen) {
	cars := carriersFor(g.home, c.Thorough())
	labels := make([]string, len(cars))
	for i := range cars {
		labels[i] = cars[i].label
	}
	space := engine.Space{engine.D("carrier", labels...), engine.D("context", tolContexts...)}
	space = append(space, g.dims...)
	e := engine.E1{Part: g.part, Space: space, K: len(space)}
	if g.k > 0 {
		e.Groups, e.K = [][]string{append([]string{"carrier", "context"}, g.full...)}, g.k
	}
	e.Skip = func(v engine.Vec) bool {
		car := &cars[v[0]]
		switch tolContexts[v[1]] {
		case "siblings":
			return car.mode != "member" || car.foreign || (car.sib < 0 && !car.hasCustom)
		case "dup-after-valid":
			return car.mode != "member" || car.foreign || firstValid[car.cat] == nil
		}
		return false
	}
	e.NewWorker = func(int) func(engine.Vec) engine.Result {
		return func(v engine.Vec) engine.Result {
			get := func(name string) string { return space.Get(v, name) }
			return runTol(&cars[v[0]], tolContexts[v[1]], g.build(get))
		}
	}
	c.RunE1(e)
}
