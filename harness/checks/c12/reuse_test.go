package c12

// Part "reuse": histories on ONE receiver. An application that polls (introspection,
// userinfo) or pools its values decodes document after document into the same Go value.
// encoding/json's contract, which the library's own decoders must keep, is that a member
// PRESENT in the document overwrites what the receiver held. For every member of every
// claims / request / discovery type (found by reflection, by the kind of value it accepts),
// every custom claim and every leaf type on its own:
//
//	step 1   decode D1, the member holding a non-zero value v1 (every documented spelling)
//	step 2   decode D2 into the SAME receiver: the member absent / null / holding the zero,
//	         false, empty or another value v2 (every documented spelling; nested address and
//	         actor objects with inner members zero / other / absent)
//	step 3   (history d1-d2-d1) decode D1 again
//
// alone and next to a sibling string member whose value changes too. The value after the
// last step is judged member by member, recursively into nested objects:
//
//	present in the last document -> exactly what a fresh receiver must give for that form
//	                                (false stays false, "" stays "", [] empty, 0 stays 0)
//	absent / null                -> what the receiver held before, or zero (standard Go: Either)
//	maps (events, custom claims) -> every key present has the document's value, every other
//	                                key and value comes from an earlier document (map merging
//	                                is encoding/json's documented behaviour: Either)
//
// "never a value the document did not contain".

import (
	"encoding/json"
	"fmt"
	"reflect"
	"sort"
	"strings"

	"verif/harness/engine"
)

var reuseFirst = map[string][]string{
	"string":    {`"v1"`},
	"bool":      {`true`},
	"boolstr":   {`true`, `"true"`},
	"time":      {`1700000000`, `"2023-11-14T22:13:20Z"`},
	"audience":  {`["a1","a2"]`, `"a1"`},
	"strings":   {`["a1","a2"]`},
	"spacelist": {`"a1 a2"`},
	"locale":    {`"de"`},
	"locales":   {`["de","en"]`, `"de en"`},
	"actor":     {`{"iss":"i1","sub":"s1","act":{"sub":"s2","y":"y1"},"x":1}`},
	"address":   {`{"formatted":"f1","country":"c1"}`},
	"object":    {`{"e1":{"k":1}}`},
	"custom":    {`{"a":1}`, `"c1"`, `true`, `[1,2]`, `7`},
}

var reuseSecond = map[string][]string{
	"string":    {`""`, `"v2"`},
	"bool":      {`false`, `true`},
	"boolstr":   {`false`, `"false"`, `true`, `"true"`},
	"time":      {`0`, `1`, `-1`, `1600000000`, `"1970-01-01T00:00:00Z"`, `"2020-09-13T12:26:40Z"`},
	"audience":  {`[]`, `""`, `"b1"`, `["b1"]`, `[""]`, `["b1","b2","b3"]`},
	"strings":   {`[]`, `["b1"]`, `[""]`, `["b1","b2","b3"]`},
	"spacelist": {`""`, `"b1"`, `"b1 b2 b3"`},
	"locale":    {`""`, `"und"`, `"fr"`},
	"locales":   {`[]`, `""`, `["fr"]`, `"fr"`, `["und"]`},
	"actor":     {`{}`, `{"sub":""}`, `{"sub":"s9"}`, `{"iss":"","act":{"sub":""}}`, `{"act":{}}`, `{"act":{"y":""}}`, `{"x":0}`, `{"x":"x2","z":false}`},
	"address":   {`{}`, `{"formatted":""}`, `{"formatted":"f2"}`, `{"country":"","region":"r2"}`},
	"object":    {`{}`, `{"e2":1}`, `{"e1":{}}`, `{"e1":0}`},
	"custom":    {`false`, `""`, `0`, `[]`, `{}`, `{"b":2}`, `"c2"`},
}

const reuseMaxFirst, reuseMaxSecond = 5, 8

var reuseHist = []string{"d1-d2", "d1-d2-d1"}
var reuseCtx = []string{"alone", "siblings"}

// reuseCarriers: every member of a known category of every type, the custom claim of every
// type that has a custom map, every leaf type.
func reuseCarriers() []carrier {
	var out []carrier
	for _, t := range tolTypes {
		d := tolDecTypes[t]
		_, hasCustom := customMap(reflect.New(t).Elem())
		for fi, f := range d.fields {
			if reuseFirst[f.cat] == nil {
				continue
			}
			c := carrier{label: t.Name() + "." + f.name, mode: "member", cat: f.cat, dt: d, fi: fi, sib: -1, hasCustom: hasCustom}
			for si, g := range d.fields {
				if si != fi && g.cat == "string" && g.typ.Kind() == reflect.String && g.typ.PkgPath() == "" {
					c.sib = si
					break
				}
			}
			out = append(out, c)
		}
		if hasCustom {
			c := carrier{label: t.Name() + "." + customMember, mode: "custom", cat: "custom", dt: d, fi: -1, sib: -1, hasCustom: true}
			for si, g := range d.fields {
				if g.cat == "string" && g.typ.Kind() == reflect.String && g.typ.PkgPath() == "" {
					c.sib = si
					break
				}
			}
			out = append(out, c)
		}
	}
	for _, t := range leafTypes {
		cat := category(t)
		if t == tLocale.Elem() {
			cat = "locale"
		}
		out = append(out, carrier{label: "leaf:" + t.Name(), mode: "leaf", cat: cat, leaf: t})
	}
	return out
}

// snap: what one struct level held before the last step.
type snap struct {
	vals   map[string]any
	nested map[string]*snap
	custom map[string]any
}

func takeSnap(sv reflect.Value) *snap {
	s := &snap{vals: map[string]any{}, nested: map[string]*snap{}}
	for _, f := range reuseFields(sv.Type()) {
		fv := sv.FieldByIndex(f.index)
		s.vals[f.name] = refVal(fv, f.cat)
		if (f.cat == "actor" || f.cat == "address") && !fv.IsNil() {
			s.nested[f.name] = takeSnap(fv.Elem())
		}
	}
	if cm, ok := customMap(sv); ok && cm.Len() > 0 {
		s.custom = norm(cm.Interface()).(map[string]any)
	}
	return s
}

func reuseFields(t reflect.Type) []field {
	if d, ok := tolDecTypes[t]; ok {
		return d.fields
	}
	var out []field
	for _, f := range fieldsOf(t) {
		if !strings.HasPrefix(f.cat, "unsupported:") {
			out = append(out, f)
		}
	}
	return out
}

func jsonText(v any) string {
	b, _ := json.Marshal(v)
	return string(b)
}

type reuseViolation struct{ kind, cat, member, detail string }

// mapAfter: a Go map decoded over an earlier one: keys of the document have the document's
// value, every other key and value is what was there before.
func mapAfter(got, prev, doc map[string]any, skipValue func(k string) bool) string {
	for k, dv := range doc {
		if skipValue != nil && skipValue(k) {
			continue
		}
		gv, ok := got[k]
		if !ok || !eq(gv, dv) {
			return fmt.Sprintf("key %q is %s in the document but %s (present=%v) in the decoded map", k, jsonText(dv), jsonText(gv), ok)
		}
	}
	for k, gv := range got {
		if _, in := doc[k]; in {
			continue
		}
		pv, in := prev[k]
		if !in {
			return fmt.Sprintf("key %q = %s is in no document decoded so far", k, jsonText(gv))
		}
		if (skipValue == nil || !skipValue(k)) && !eq(gv, pv) {
			return fmt.Sprintf("key %q is absent from the document and changed from %s to %s", k, jsonText(pv), jsonText(gv))
		}
	}
	return ""
}

// checkLevel judges one struct level after the last document doc was decoded into it.
func checkLevel(path string, sv reflect.Value, sn *snap, doc map[string]any) *reuseViolation {
	if sn == nil {
		sn = &snap{}
	}
	fields := reuseFields(sv.Type())
	registered := map[string]bool{}
	for _, f := range fields {
		registered[f.name] = true
		fv := sv.FieldByIndex(f.index)
		got := refVal(fv, f.cat)
		prev, hadPrev := sn.vals[f.name]
		if !hadPrev {
			prev = zeroOf(f.cat)
		}
		raw, present := doc[f.name]
		if !present || raw == nil {
			if eq(got, prev) || eq(got, zeroOf(f.cat)) || got == nil || (f.cat == "spacelist" && got == "") {
				continue
			}
			return &reuseViolation{"reuse-decode-invented-member", f.cat, path + f.name,
				fmt.Sprintf("member %q is absent from (or null in) the document, held %s before and is %s now", path+f.name, jsonText(prev), jsonText(got))}
		}
		switch f.cat {
		case "actor", "address":
			m, ok := raw.(map[string]any)
			if !ok {
				continue
			}
			if fv.IsNil() {
				for k, v := range m {
					if !isZeroJSON(v) {
						return &reuseViolation{"reuse-present-member-lost", f.cat, path + f.name,
							fmt.Sprintf("member %q carries %q=%s in the document and is nil after decoding", path+f.name, k, jsonText(v))}
					}
				}
				continue
			}
			if v := checkLevel(path+f.name+".", fv.Elem(), sn.nested[f.name], m); v != nil {
				return v
			}
		case "object":
			m, ok := raw.(map[string]any)
			if !ok {
				continue
			}
			gm, _ := got.(map[string]any)
			pm, _ := prev.(map[string]any)
			if why := mapAfter(gm, pm, m, nil); why != "" {
				return &reuseViolation{"reuse-present-member-not-overwritten", f.cat, path + f.name, fmt.Sprintf("member %q: %s", path+f.name, why)}
			}
		default:
			e := expectFor(f.cat, mkShape("", jsonText(raw)))
			if e.accepts(got) {
				continue
			}
			kind := "reuse-decode-value-not-in-document"
			if eq(got, prev) {
				kind = "reuse-present-member-not-overwritten"
			}
			return &reuseViolation{kind, f.cat, path + f.name,
				fmt.Sprintf("member %q is %s in the document, the receiver held %s before and holds %s after decoding (a fresh receiver must give one of %s)", path+f.name, jsonText(raw), jsonText(prev), jsonText(got), jsonText(e.allowed))}
		}
	}
	if cmv, ok := customMap(sv); ok {
		var cm map[string]any
		if cmv.Len() > 0 {
			cm = norm(cmv.Interface()).(map[string]any)
		}
		// the custom map repeats registered members of the documents; their values are the
		// registered members' business
		if why := mapAfter(cm, sn.custom, doc, func(k string) bool { return registered[k] }); why != "" {
			return &reuseViolation{"reuse-custom-claim-not-overwritten", "custom", path + customMember, "custom claims of " + strings.TrimSuffix("value "+path, ".") + ": " + why}
		}
	}
	return nil
}

type reuseDoc struct {
	text string
	val  map[string]any
}

func mkReuseDoc(names, texts []string) reuseDoc {
	var sb strings.Builder
	sb.WriteByte('{')
	for i := range names {
		if i > 0 {
			sb.WriteByte(',')
		}
		fmt.Fprintf(&sb, "%q:%s", names[i], texts[i])
	}
	sb.WriteByte('}')
	d := reuseDoc{text: sb.String()}
	if err := json.Unmarshal([]byte(d.text), &d.val); err != nil {
		panic("c12: reuse document " + d.text + ": " + err.Error())
	}
	return d
}

func reuseSecondText(cat string, label string) (text string, ok bool) {
	switch label {
	case "absent":
		return "", true
	case "null":
		return "null", true
	}
	var i int
	fmt.Sscanf(label, "v2-%d", &i)
	if l := reuseSecond[cat]; i < len(l) {
		return l[i], true
	}
	return "", false
}

func runReuse(car *carrier, v1 int, second, hist, ctx string) engine.Result {
	t1 := reuseFirst[car.cat][v1]
	t2, _ := reuseSecondText(car.cat, second)
	rule := car.cat + "/" + hist + "/" + ctx + "/second=" + second
	if second != "absent" && second != "null" {
		rule = car.cat + "/" + hist + "/" + ctx + "/second=" + mkShape("", t2).class()
		if isZeroJSON(mkShape("", t2).val) {
			rule += "-zero"
		}
	}
	if car.mode == "leaf" {
		return runReuseLeaf(car, rule, t1, t2, second, hist)
	}
	d := car.dt
	tn := d.t.Name()
	name := customMember
	if car.mode == "member" {
		name = d.fields[car.fi].name
	}
	var n1, x1, n2, x2 []string
	if ctx == "siblings" && car.sib >= 0 {
		n1, x1 = append(n1, d.fields[car.sib].name), append(x1, `"sib1"`)
		n2, x2 = append(n2, d.fields[car.sib].name), append(x2, `"sib2"`)
	}
	n1, x1 = append(n1, name), append(x1, t1)
	if second != "absent" {
		n2, x2 = append(n2, name), append(x2, t2)
	}
	if ctx == "siblings" && car.hasCustom && car.mode != "custom" {
		n1, x1 = append(n1, "k-custom"), append(x1, `[1]`)
	}
	d1, d2 := mkReuseDoc(n1, x1), mkReuseDoc(n2, x2)
	steps := []reuseDoc{d1, d2}
	if hist == "d1-d2-d1" {
		steps = append(steps, d1)
	}
	ptr := reflect.New(d.t)
	var sn *snap
	var texts []string
	for si, st := range steps {
		last := si == len(steps)-1
		if last {
			sn = takeSnap(ptr.Elem())
		}
		texts = append(texts, st.text)
		var err error
		if p := engine.Safe(func() { err = json.Unmarshal([]byte(st.text), ptr.Interface()) }); p != "" {
			return engine.Bad(rule, "panic", "C12/panic/decode/"+car.cat, fmt.Sprintf("decoding %s one after the other into one *%s panics: %s", strings.Join(texts, " , "), tn, p))
		}
		if err != nil {
			allowErr := false
			for k, raw := range st.val {
				for _, f := range d.fields {
					if f.name == k && f.cat != "actor" && f.cat != "address" && f.cat != "object" {
						if expectFor(f.cat, mkShape("", jsonText(raw))).allowErr {
							allowErr = true
						}
					}
				}
			}
			if allowErr {
				return engine.OK(rule, fmt.Sprintf("error-at-step-%d", si+1))
			}
			return engine.Bad(rule, "error", "C12/reuse-documented-form-rejected/"+car.cat+"/"+name,
				fmt.Sprintf("decoding %s one after the other into one *%s: step %d fails with %v although every member has a documented form", strings.Join(texts, " , "), tn, si+1, err))
		}
	}
	lastDoc := steps[len(steps)-1]
	if v := checkLevel("", ptr.Elem(), sn, lastDoc.val); v != nil {
		return engine.Bad(rule, v.kind, "C12/"+v.kind+"/"+v.cat+"/"+v.member,
			fmt.Sprintf("decoding %s one after the other into one *%s: %s", strings.Join(texts, " , "), tn, v.detail))
	}
	// outcome class: what happened to the member under test
	outcome := "overwritten"
	if _, present := lastDoc.val[name]; !present || lastDoc.val[name] == nil {
		outcome = "zeroed"
		if car.mode == "member" {
			f := d.fields[car.fi]
			if got := refVal(ptr.Elem().FieldByIndex(f.index), f.cat); !eq(got, zeroOf(f.cat)) && got != nil {
				outcome = "retained"
			}
		} else if cm, ok := customMap(ptr.Elem()); ok && cm.MapIndex(reflect.ValueOf(name)).IsValid() {
			outcome = "retained"
		}
	}
	return engine.OK(rule, outcome)
}

func runReuseLeaf(car *carrier, rule, t1, t2, second, hist string) engine.Result {
	if second == "absent" {
		return engine.OK(rule, "not-applicable")
	}
	steps := []string{t1, t2}
	if hist == "d1-d2-d1" {
		steps = append(steps, t1)
	}
	ptr := reflect.New(car.leaf)
	var prev any
	for si, st := range steps {
		if si == len(steps)-1 {
			prev = leafRefVal(ptr, car.cat)
		}
		var err error
		if p := engine.Safe(func() { err = json.Unmarshal([]byte(st), ptr.Interface()) }); p != "" {
			return engine.Bad(rule, "panic", "C12/panic/decode/"+car.cat, fmt.Sprintf("decoding %s one after the other into one *%s panics: %s", strings.Join(steps[:si+1], " , "), car.leaf.Name(), p))
		}
		if err != nil {
			if expectFor(car.cat, mkShape("", st)).allowErr {
				return engine.OK(rule, fmt.Sprintf("error-at-step-%d", si+1))
			}
			return engine.Bad(rule, "error", "C12/reuse-documented-form-rejected/"+car.cat+"/"+car.label,
				fmt.Sprintf("decoding %s one after the other into one *%s: step %d fails with %v", strings.Join(steps[:si+1], " , "), car.leaf.Name(), si+1, err))
		}
	}
	last := steps[len(steps)-1]
	got := leafRefVal(ptr, car.cat)
	if last == "null" {
		if eq(got, prev) || eq(got, zeroOf(car.cat)) || got == nil {
			return engine.OK(rule, "null-kept-or-zeroed")
		}
		return engine.Bad(rule, "invented", "C12/reuse-decode-invented-member/"+car.cat+"/"+car.label,
			fmt.Sprintf("decoding %s one after the other into one *%s: held %s before null, %s after", strings.Join(steps, " , "), car.leaf.Name(), jsonText(prev), jsonText(got)))
	}
	e := expectFor(car.cat, mkShape("", last))
	if !e.accepts(got) {
		kind := "reuse-decode-value-not-in-document"
		if eq(got, prev) {
			kind = "reuse-present-member-not-overwritten"
		}
		return engine.Bad(rule, kind, "C12/"+kind+"/"+car.cat+"/"+car.label,
			fmt.Sprintf("decoding %s one after the other into one *%s: the receiver held %s before the last document and holds %s after it (a fresh receiver must give one of %s)", strings.Join(steps, " , "), car.leaf.Name(), jsonText(prev), jsonText(got), jsonText(e.allowed)))
	}
	return engine.OK(rule, "overwritten")
}

func reusePart(c *engine.Check) {
	cars := reuseCarriers()
	labels := make([]string, len(cars))
	byCat := map[string]int{}
	for i := range cars {
		labels[i] = cars[i].label
		byCat[cars[i].cat]++
	}
	c.Extra("reuse_carriers_by_category", byCat)
	firsts := make([]string, reuseMaxFirst)
	for i := range firsts {
		firsts[i] = fmt.Sprintf("v1-%d", i)
	}
	seconds := []string{"absent", "null"}
	for i := 0; i < reuseMaxSecond; i++ {
		seconds = append(seconds, fmt.Sprintf("v2-%d", i))
	}
	for cat, l := range reuseFirst {
		if len(l) > reuseMaxFirst || len(reuseSecond[cat]) > reuseMaxSecond || len(reuseSecond[cat]) == 0 {
			c.Internal("reuse alphabets of " + cat + " exceed the dimension sizes")
		}
	}
	cats := make([]string, 0, len(byCat))
	for k := range byCat {
		cats = append(cats, k)
	}
	sort.Strings(cats)
	space := engine.Space{engine.D("carrier", labels...), engine.D("first", firsts...), engine.D("second", seconds...), engine.D("history", reuseHist...), engine.D("context", reuseCtx...)}
	c.RunE1(engine.E1{
		Part: "reuse", Space: space, K: len(space),
		Skip: func(v engine.Vec) bool {
			car := &cars[v[0]]
			if v[1] >= len(reuseFirst[car.cat]) {
				return true
			}
			if _, ok := reuseSecondText(car.cat, seconds[v[2]]); !ok {
				return true
			}
			if car.mode == "leaf" && (reuseCtx[v[4]] != "alone" || seconds[v[2]] == "absent") {
				return true
			}
			return reuseCtx[v[4]] == "siblings" && car.sib < 0 && !car.hasCustom
		},
		NewWorker: func(int) func(engine.Vec) engine.Result {
			return func(v engine.Vec) engine.Result {
				return runReuse(&cars[v[0]], v[1], seconds[v[2]], reuseHist[v[3]], reuseCtx[v[4]])
			}
		},
	})
}
