package c12

// Part "retain": a marshalled document must stay what it was. An application keeps the bytes
// MarshalJSON returned (to sign them, to log them, to compare them) while it encodes further
// values; "lossless" therefore includes that encoding value B never changes the document
// already returned for value A (no scratch buffer shared between calls). All sequences of
// <=3 encodes over {small, medium, large} values per claims type are executed sequentially on
// one worker with GOMAXPROCS(1) (so that any pooling is deterministic), every earlier result is
// compared with the copy taken when it was returned.

import (
	"bytes"
	"encoding/json"
	"fmt"
	"os"
	"runtime"
	"strings"
	"testing"

	"github.com/zitadel/oidc/v3/pkg/oidc"

	"verif/harness/engine"
)

var retainTypes = []string{"IDTokenClaims", "AccessTokenClaims", "LogoutTokenClaims", "UserInfo", "IntrospectionResponse", "JWTProfileAssertionClaims", "ActorClaims", "JWTTokenRequest"}
var retainSizes = []string{"none", "small", "medium", "large"}

func retainValue(typ, size string) json.Marshaler {
	n := map[string]int{"small": 1, "medium": 40, "large": 900}[size]
	sub := "sub-" + size
	custom := map[string]any{"k-" + size: strings.Repeat(size[:1], n)}
	switch typ {
	case "IDTokenClaims":
		return &oidc.IDTokenClaims{TokenClaims: oidc.TokenClaims{Issuer: "https://op.example", Subject: sub, JWTID: "jti-" + size}, Claims: custom}
	case "AccessTokenClaims":
		return &oidc.AccessTokenClaims{TokenClaims: oidc.TokenClaims{Issuer: "https://op.example", Subject: sub}, Scopes: []string{size}, Claims: custom}
	case "LogoutTokenClaims":
		return &oidc.LogoutTokenClaims{Issuer: "https://op.example", Subject: sub, SessionID: "sid-" + size, Claims: custom}
	case "UserInfo":
		return &oidc.UserInfo{Subject: sub, Claims: custom}
	case "IntrospectionResponse":
		return &oidc.IntrospectionResponse{Active: true, Subject: sub, Claims: custom}
	case "JWTProfileAssertionClaims":
		return &oidc.JWTProfileAssertionClaims{Issuer: "client-" + size, Subject: sub, Claims: custom}
	case "ActorClaims":
		return &oidc.ActorClaims{Subject: sub, Claims: custom}
	case "JWTTokenRequest":
		return nil // no MarshalJSON of its own
	}
	return nil
}

func retainPart(c *engine.Check, t *testing.T) {
	sp := engine.Space{engine.D("type", retainTypes...), engine.D("e1", retainSizes...), engine.D("e2", retainSizes...), engine.D("e3", retainSizes...)}
	oldW, hadW := os.LookupEnv("VERIF_WORKERS")
	os.Setenv("VERIF_WORKERS", "1")
	oldP := runtime.GOMAXPROCS(1)
	defer func() {
		runtime.GOMAXPROCS(oldP)
		if hadW {
			os.Setenv("VERIF_WORKERS", oldW)
		} else {
			os.Unsetenv("VERIF_WORKERS")
		}
	}()
	c.RunE1(engine.E1{
		Part: "retain", Space: sp, K: len(sp),
		Skip: func(v engine.Vec) bool {
			return v[1] == 0 || (v[2] == 0 && v[3] != 0) || retainValue(retainTypes[v[0]], "small") == nil
		},
		NewWorker: func(int) func(engine.Vec) engine.Result {
			return func(v engine.Vec) engine.Result {
				typ := retainTypes[v[0]]
				type kept struct {
					live, snap []byte
					size       string
				}
				var ks []kept
				for _, x := range v[1:] {
					size := retainSizes[x]
					if size == "none" {
						break
					}
					b, err := retainValue(typ, size).MarshalJSON()
					if err != nil {
						return engine.Bad("retain", "marshal-error", "C12/marshal-error/"+typ, err.Error())
					}
					ks = append(ks, kept{live: b, snap: bytes.Clone(b), size: size})
					for i, k := range ks {
						var doc map[string]any
						if !bytes.Equal(k.live, k.snap) || json.Unmarshal(k.live, &doc) != nil || !strings.Contains(string(k.live), "sub-"+k.size) {
							return engine.Bad("retain", "retained-result-changed", "C12/encode-result-aliased/"+typ,
								fmt.Sprintf("document %d (%s value) returned by %s.MarshalJSON changed after %d further encode(s): was %.80q, now %.80q", i+1, k.size, typ, len(ks)-1-i, k.snap, k.live))
						}
					}
				}
				return engine.OK("retain", fmt.Sprintf("stable-%d", len(ks)))
			}
		},
	})
}
