// C12 — claims codec: lossless round trip, registered claims win, tolerant
// decoding without panics; AES sealing opens under the same key only.
//
// Engine E1 over pure functions, three families of parts:
//
//	rt/<Type>   encode + round trip of reflected per-member alphabets x custom maps
//	dec/<Type>  JSON shape grammar applied to every registered member, dec/leaf for
//	            the codec's leaf types on their own
//	tol/*       the tolerant forms with GENERATED alphabets (locale subtags, locale lists,
//	            RFC 3339 components, number spellings, boolean near misses, lists with one
//	            odd member) in every member of that form of every type, three contexts
//	            (tol_test.go, tolref_test.go)
//	reuse       histories on one receiver: D1 (member = v1) then D2 (member absent / null /
//	            zero / other value) decoded into the SAME value, every member of every type,
//	            custom claims, nested objects, leaf types (reuse_test.go)
//	aes         sealing: length x pattern x key x API x attack, full product
//	aes-keys    sealing under related keys: base x seal-key variant x open-key variant x
//	            length x pattern x API (relkeys_test.go)
//	aes-op      op.NewAESCrypto with [32]byte keys that differ in one bit / a tail
//
// The registered member names of every type are derived by reflection over
// the json tags (encoding/json dominance rules), so new members are followed.
package c12

import (
	"reflect"
	"testing"

	"verif/harness/engine"
)

func TestMain(m *testing.M) { engine.Main(m) }

func TestCheck(t *testing.T) {
	c := engine.Start(t, "C12")
	c.SetRule("E1 per claims type: (custom-map alphabet, incl. one colliding key per registered JSON member) x all <=k member deviations from the zero value, Marshal+Unmarshal of the real code judged by a reference codec; per type every member x JSON shape grammar (<=k members at once) judged by the per-category decoding contract; tolerant forms from generators (locale = language x script x region x variant x separator with known / unknown / malformed values per subtag, locale lists = form x length/position x one generated member, RFC 3339 strings = <=2 deviating components of year, month-day, separator, time, fraction, zone, numbers = spelling x sign x magnitude x notation, booleans = word x casing x wrapping, lists = length/position x kind of the one odd member) decoded in every member of that form of every claims / request / discovery type, in the leaf type and through Locales.UnmarshalText, alone / between valid siblings / as second occurrence of a duplicated member: error, zero value, or exactly the value the document contains, and re-encoding gives that value back; histories on one receiver: every member / custom claim / leaf type x first document (member at a non-zero value, every documented spelling) x second document decoded into the same value (member absent / null / every documented zero or other value, nested objects with inner members absent / empty / other) x {D1 D2, D1 D2 D1} x {alone, with a changing sibling}: a member present in the last document holds exactly what a fresh receiver must give, an absent or null member what was there before or zero, maps merge; AES sealing full product length x pattern x key x api x attack, and base key x seal-key variant x open-key variant (cut / zero- or otherwise extended / one byte flipped) x length x pattern x api, and op.NewAESCrypto keys differing in one bit per byte position; distinct = (part, oracle rule, observed outcome class)")
	c.Assume("encoding/json (generic map decoding), encoding/base64, crypto/aes and golang.org/x/text/language.Parse are correct (they are the reference for document equality, raw base64url and BCP47 validity)",
		"oidc.Time values are enumerated within +-2^53 s (JSON numbers are float64 in this codec)",
		"a custom key that collides with a registered member that is NOT set is judged Either (the statement only speaks about set members)",
		"the round trip is judged against the value as it stands after Marshal (IntrospectionResponse.MarshalJSON fills username from preferred_username)",
		"empty list == absent list, nil *Locale == undetermined locale, SpaceDelimitedArray compared in its joined form",
		"a locale string denotes the tag x/text/language parses from it, in any of that library's canonical spellings (language.Tag.UnmarshalText keeps iw, language.Parse answers he: both are the document's value); a tag it reports as well-formed but unknown or as malformed denotes nothing",
		"an RFC 3339 string is one that both time.Parse(time.RFC3339) and the grammar of RFC 3339 section 5.6 accept; where the two differ (lower-case t/z, leap second :60 only in the RFC; one-digit hour, ',' fraction, offsets +24:00 / +01:60 only in Go) the outcome is open between error, zero and either reading",
		"a member given twice may hold what either occurrence denotes (for plain lists: any mix of their elements, which is what encoding/json produces)",
		"a receiver that is decoded into again may keep what it held for members the new document does not carry or carries as null, and a Go map (events, custom claims) may keep earlier keys: both are encoding/json's documented behaviour (judged Either); a member the document carries must not keep the earlier value",
		"sealing: a wrong key / damaged IV must give an error or a different plaintext only for plaintexts of >=16 bytes (for shorter ones a collision has probability >= 2^-120 and the IV is random)")

	// pre-compute member lists (read-only afterwards)
	for _, t := range append(append([]reflect.Type{}, claimTypes...), tAddress.Elem()) {
		fieldCache[t] = jsonFields(t)
	}
	members := map[string][]string{}
	for _, t := range claimTypes {
		for _, f := range fieldCache[t] {
			members[t.Name()] = append(members[t.Name()], f.name+":"+f.cat)
		}
	}
	c.Extra("registered_members_by_reflection", members)

	retainPart(c, t)
	reusePart(c)

	// quick: (custom x pin) x dev(2) of the members; thorough adds custom x dev(3)
	groups, ks := [][]string{{"custom", "pin"}}, []int{2}
	if c.Thorough() {
		groups, ks = append(groups, []string{"custom"}), append(ks, 3)
	}
	for _, t := range claimTypes {
		r := newRTType(c, t)
		c.RunE1(engine.E1{
			Part:   "rt/" + t.Name(),
			Space:  r.space,
			Groups: groups,
			Ks:     ks,
			K:      ks[len(ks)-1],
			Skip:   r.skip,
			NewWorker: func(int) func(engine.Vec) engine.Result {
				return r.run
			},
		})
	}

	kDec := engine.Pick(c, 1, 2)
	for _, t := range claimTypes {
		d := newDecType(t)
		c.RunE1(engine.E1{
			Part:  "dec/" + t.Name(),
			Space: d.space,
			K:     kDec,
			Skip:  d.skip,
			NewWorker: func(int) func(engine.Vec) engine.Result {
				return d.run
			},
		})
	}
	ls := leafSpace()
	c.RunE1(engine.E1{Part: "dec/leaf", Space: ls, K: len(ls),
		NewWorker: func(int) func(engine.Vec) engine.Result {
			return func(v engine.Vec) engine.Result { return runLeaf(ls, v) }
		}})

	for _, g := range tolGens(c.Thorough()) {
		tolPart(c, g)
	}

	as := aesSpace(c.Thorough())
	c.RunE1(engine.E1{Part: "aes", Space: as, K: len(as), Skip: aesSkip(as),
		NewWorker: func(int) func(engine.Vec) engine.Result {
			return func(v engine.Vec) engine.Result { return runAES(as, v) }
		}})
	rks := relKeysSpace(c.Thorough())
	c.RunE1(engine.E1{Part: "aes-keys", Space: rks, K: len(rks), Skip: relKeysSkip(rks),
		NewWorker: func(int) func(engine.Vec) engine.Result {
			return func(v engine.Vec) engine.Result { return runRelKeys(rks, v) }
		}})
	ops := opCryptoSpace(c.Thorough())
	c.RunE1(engine.E1{Part: "aes-op", Space: ops, K: len(ops), Skip: opCryptoSkip(ops),
		NewWorker: func(int) func(engine.Vec) engine.Result {
			return func(v engine.Vec) engine.Result { return runOpCrypto(ops, v) }
		}})
	c.Finish()
}

// TestSizes prints the size of every enumeration (not part of the check).
func TestSizes(t *testing.T) {
	c := engine.Start(t, "C12")
	for _, ty := range claimTypes {
		r := newRTType(c, ty)
		e := engine.E1{Space: r.space, Groups: [][]string{{"custom", "pin"}, {"custom"}}, Ks: []int{2, 3}}
		var n int64
		// count without Skip is an upper bound; apply skip by hand
		_ = n
		d := newDecType(ty)
		e2 := engine.E1{Space: d.space, K: engine.Pick(c, 1, 2)}
		t.Logf("%s rt<=%d dec<=%d members=%d", ty.Name(), e.Count(), e2.Count(), len(r.fields))
	}
	as := aesSpace(c.Thorough())
	t.Logf("aes<=%d", as.Size())
}
