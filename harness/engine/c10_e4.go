package engine

// E4 — fault enumerator (added for C10).
//
// A FLOW is one request against a fixed, cloneable pre-state. The storage under
// the provider journals every call it receives; the position of a call in the
// journal of the current request is its (dynamic) index. A PLAN names storage
// calls that must fail: by dynamic index (each with its own error kind) and/or by
// method name ("every call of M fails"). E4 walks, per flow and in a fixed order,
//
//	depth 0   the fault-free run (journal J0; executed twice: determinism)
//	depth d   for every plan P of depth d-1 with observed journal J(P): every
//	          k > max(P), k < len(J(P)), every error kind for the method at
//	          J(P)[k]  ->  plan P+{k,kind}          (d = 1 .. Depth)
//	methods   every method name seen in ANY journal of the flow, every kind of
//	          that method: "all calls of M fail with kind K" - the plan that fails
//	          the SAME method again however often the handler retries it
//	          (MethodSets>=1); all unordered pairs of such methods, every kind of
//	          either (MethodSets>=2); worklist until no new method shows up
//
// The journal is dynamic: a fault at k may shorten or change everything after k,
// so successors of P are enumerated over the journal observed in the run of P
// itself. What cannot change is the prefix up to and including k — E4 checks that
// on every execution (a differing prefix is an INTERNAL error: the execution was
// not a deterministic function of the plan), as well as that every index fault
// of the plan actually fired.
//
// Nothing is sampled; the only early stop is the deadline (exhaustive=false).

import (
	"fmt"
	"slices"
	"sort"
	"strings"
	"sync"
)

// E4Fault makes the call with dynamic journal index Idx fail with error kind Kind.
type E4Fault struct {
	Idx  int    `json:"idx"`
	Kind string `json:"kind"`
}

// E4Plan is one execution: a flow plus the storage calls that fail in it.
type E4Plan struct {
	Flow    string    `json:"flow"`
	Faults  []E4Fault `json:"faults,omitempty"`  // by dynamic index, ascending
	Methods []string  `json:"methods,omitempty"` // every call of these methods fails ...
	Kind    string    `json:"kind,omitempty"`    // ... with this kind
}

func (p E4Plan) String() string {
	var b strings.Builder
	b.WriteString(p.Flow)
	for _, f := range p.Faults {
		fmt.Fprintf(&b, " #%d:%s", f.Idx, f.Kind)
	}
	if len(p.Methods) > 0 {
		fmt.Fprintf(&b, " every{%s}:%s", strings.Join(p.Methods, ","), p.Kind)
	}
	return b.String()
}

// E4Obs is what the check reports back for one executed plan.
type E4Obs struct {
	Result  Result
	Journal []string // method names of the storage calls of THIS execution, in order
	Fired   []int    // journal indices at which an injected error was returned
}

// E4 describes one fault enumeration.
type E4 struct {
	Part       string
	Flows      []string
	Kinds      func(method string) []string // error kinds to inject into a call of method
	PairKinds  func(method string) []string // kinds for the method-PAIR plans (nil: Kinds)
	Depth      int                          // max number of index faults per plan
	MethodSets int                          // 0 none, 1 every method, 2 also every pair of methods
	NewWorker  func(w int) func(E4Plan) E4Obs
}

// E4Report is returned to the check (coverage table, counts).
type E4Report struct {
	// Coverage[method][flow] = number of executions in which an injected fault
	// fired in a call of method during flow.
	Coverage  map[string]map[string]int
	Plans     map[string]int64 // executions per mode (baseline, k1, k2, ..., method1, method2)
	MaxLen    int              // longest journal seen
	Flows     int
	Stopped   bool
	Vacuous   int64 // method plans in which no fault fired (not recorded as evaluations)
	JournalOf map[string][]string
}

func e4Mode(p E4Plan) string {
	switch {
	case len(p.Methods) > 0:
		return fmt.Sprintf("method%d", len(p.Methods))
	case len(p.Faults) == 0:
		return "baseline"
	default:
		return fmt.Sprintf("k%d", len(p.Faults))
	}
}

func sameObs(a, b E4Obs) bool {
	return a.Result.Rule == b.Result.Rule && a.Result.Outcome == b.Result.Outcome && a.Result.Sig == b.Result.Sig &&
		slices.Equal(a.Journal, b.Journal) && slices.Equal(a.Fired, b.Fired)
}

// RunE4 executes the enumeration, flows sharded over Workers() goroutines.
func (c *Check) RunE4(e E4) *E4Report {
	rep := &E4Report{Coverage: map[string]map[string]int{}, Plans: map[string]int64{}, JournalOf: map[string][]string{}}
	if c.ReplayFile != "" {
		var plan E4Plan
		part, err := c.LoadReplay(&plan)
		if err != nil {
			c.Internal("replay: " + err.Error())
			return rep
		}
		if !strings.HasPrefix(part, e.Part+"/") && part != e.Part {
			return rep
		}
		if !slices.Contains(e.Flows, plan.Flow) {
			c.Internal("replay: unknown flow " + plan.Flow)
			return rep
		}
		o := e.NewWorker(0)(plan)
		fmt.Printf("REPLAY part=%s plan=%s\n  journal=%v fired=%v\n  rule=%s outcome=%s sig=%q\n  %s\n", part, plan, o.Journal, o.Fired,
			o.Result.Rule, o.Result.Outcome, o.Result.Sig, o.Result.Detail)
		c.Record(part, o.Result, func() any { return plan })
		return rep
	}

	var mu sync.Mutex // guards rep
	W := Workers()
	ch := make(chan string, len(e.Flows))
	for _, f := range e.Flows {
		ch <- f
	}
	close(ch)
	var wg sync.WaitGroup
	for w := 0; w < W; w++ {
		wg.Add(1)
		go func(w int) {
			defer wg.Done()
			var run func(E4Plan) E4Obs
			for flow := range ch {
				if c.Expired() {
					mu.Lock()
					rep.Stopped = true
					mu.Unlock()
					continue
				}
				if run == nil {
					run = e.NewWorker(w)
				}
				c.e4Flow(&e, flow, run, rep, &mu)
			}
		}(w)
	}
	wg.Wait()

	rep.Flows = len(e.Flows)
	plans := map[string]int64{}
	var total int64
	for k, v := range rep.Plans {
		plans[k] = v
		total += v
	}
	part := map[string]any{"part": e.Part, "engine": "E4", "flows": len(e.Flows), "depth": e.Depth, "method_sets": e.MethodSets,
		"executed": total, "plans_by_mode": plans, "longest_journal": rep.MaxLen, "method_plans_without_effect": rep.Vacuous}
	if rep.Stopped || c.timedOut.Load() {
		rep.Stopped = true
		part["stopped_by_deadline"] = true
	}
	c.mu.Lock()
	c.parts = append(c.parts, part)
	c.extra["parts"] = c.parts
	c.mu.Unlock()
	return rep
}

// e4Flow enumerates every plan of one flow.
func (c *Check) e4Flow(e *E4, flow string, run func(E4Plan) E4Obs, rep *E4Report, mu *sync.Mutex) {
	methods := map[string]bool{} // every method seen in any journal of this flow
	stopped := false

	// exec runs one plan with the bookkeeping every execution gets.
	exec := func(p E4Plan, prefix []string) (E4Obs, bool) {
		if stopped || c.Expired() {
			stopped = true
			return E4Obs{}, false
		}
		o := run(p)
		mode := e4Mode(p)
		// the prefix up to and including the last index fault cannot depend on the fault
		if len(p.Faults) > 0 && len(p.Methods) == 0 {
			last := p.Faults[len(p.Faults)-1].Idx
			if len(o.Journal) <= last || !slices.Equal(o.Journal[:last+1], prefix[:last+1]) {
				c.Internal(fmt.Sprintf("E4: journal prefix changed under plan %s: parent %v, got %v", p, prefix, o.Journal))
				return o, false
			}
			want := make([]int, len(p.Faults))
			for i, f := range p.Faults {
				want[i] = f.Idx
			}
			if !slices.Equal(o.Fired, want) {
				c.Internal(fmt.Sprintf("E4: plan %s fired at %v", p, o.Fired))
				return o, false
			}
		}
		if mode == "baseline" {
			// determinism obligation: the fault-free run of every flow is executed twice
			if o2 := run(p); !sameObs(o, o2) {
				c.Internal(fmt.Sprintf("E4: nondeterministic execution of %s: %+v vs %+v", p, o, o2))
			}
			if len(o.Fired) != 0 {
				c.Internal(fmt.Sprintf("E4: fault fired in the fault-free run of %s", p))
			}
		}
		if o.Result.Sig != "" {
			for i := 0; i < 4; i++ {
				if o2 := run(p); !sameObs(o, o2) {
					c.Internal(fmt.Sprintf("E4: violation candidate not reproducible for %s: %+v vs %+v", p, o, o2))
					o.Result.Sig = ""
					break
				}
			}
		}
		for _, m := range o.Journal {
			methods[m] = true
		}
		mu.Lock()
		if len(o.Journal) > rep.MaxLen {
			rep.MaxLen = len(o.Journal)
		}
		if mode == "baseline" {
			rep.JournalOf[flow] = slices.Clone(o.Journal)
		}
		for _, i := range o.Fired {
			if i < len(o.Journal) {
				m := o.Journal[i]
				if rep.Coverage[m] == nil {
					rep.Coverage[m] = map[string]int{}
				}
				rep.Coverage[m][flow]++
			}
		}
		if len(p.Methods) > 0 && len(o.Fired) == 0 {
			rep.Vacuous++ // the named methods were never reached: same execution as the baseline
			mu.Unlock()
			return o, true
		}
		rep.Plans[mode]++
		mu.Unlock()
		pp := p
		c.Record(e.Part+"/"+mode, o.Result, func() any { return pp })
		return o, true
	}

	base, ok := exec(E4Plan{Flow: flow}, nil)

	// index faults, depth first
	if ok {
		var dfs func(p E4Plan, o E4Obs)
		dfs = func(p E4Plan, o E4Obs) {
			if len(p.Faults) >= e.Depth {
				return
			}
			from := 0
			if n := len(p.Faults); n > 0 {
				from = p.Faults[n-1].Idx + 1
			}
			for k := from; k < len(o.Journal) && !stopped; k++ {
				for _, kind := range e.Kinds(o.Journal[k]) {
					p2 := E4Plan{Flow: flow, Faults: append(slices.Clone(p.Faults), E4Fault{Idx: k, Kind: kind})}
					o2, ok := exec(p2, o.Journal)
					if !ok {
						if stopped {
							return
						}
						continue
					}
					dfs(p2, o2)
				}
			}
		}
		dfs(E4Plan{Flow: flow}, base)
	}

	// method faults: worklist over the growing set of method names
	if ok && e.MethodSets >= 1 && !stopped {
		done1 := map[string]bool{}
		done2 := map[string]bool{}
		for changed := true; changed && !stopped; {
			changed = false
			names := make([]string, 0, len(methods))
			for m := range methods {
				names = append(names, m)
			}
			sort.Strings(names)
			for _, m := range names {
				if done1[m] {
					continue
				}
				done1[m] = true
				changed = true
				for _, kind := range e.Kinds(m) {
					exec(E4Plan{Flow: flow, Methods: []string{m}, Kind: kind}, nil)
				}
			}
			if e.MethodSets >= 2 {
				for i, m1 := range names {
					for _, m2 := range names[i+1:] {
						key := m1 + "|" + m2
						if done2[key] {
							continue
						}
						done2[key] = true
						changed = true
						// every kind either method may fail with (union, order of first mention)
						pk := e.PairKinds
						if pk == nil {
							pk = e.Kinds
						}
						kinds := slices.Clone(pk(m1))
						for _, k := range pk(m2) {
							if !slices.Contains(kinds, k) {
								kinds = append(kinds, k)
							}
						}
						for _, kind := range kinds {
							exec(E4Plan{Flow: flow, Methods: []string{m1, m2}, Kind: kind}, nil)
						}
					}
				}
			}
		}
	}
	if stopped {
		mu.Lock()
		rep.Stopped = true
		mu.Unlock()
	}
}
