// Package engine holds the hand-written exhaustive explorers shared by all
// checks: E1 (product / deviation enumeration), E2 (explicit-state BFS over the
// real transition function), plus verdict bookkeeping, evidence and replay files.
//
// Nothing in here samples: every enumerator walks its whole space in a fixed
// order; the only early stop is the wall-clock deadline, which is reported as
// exhaustive=false and never as a verdict.
package engine

import (
	"encoding/json"
	"fmt"
	"os"
	"path/filepath"
	"regexp"
	"runtime"
	"sort"
	"strconv"
	"strings"
	"sync"
	"sync/atomic"
	"testing"
	"time"
)

// Result is the judgement of one execution of the real code.
type Result struct {
	Rule    string // clause of the property (oracle rule id) that decided the expectation
	Outcome string // observed outcome class
	Sig     string // violation signature; empty when the execution satisfies the property
	Detail  string // human readable explanation for a violation
}

// OK builds a passing result.
func OK(rule, outcome string) Result { return Result{Rule: rule, Outcome: outcome} }

// Bad builds a violating result.
func Bad(rule, outcome, sig, detail string) Result {
	return Result{Rule: rule, Outcome: outcome, Sig: sig, Detail: detail}
}

type sigInfo struct {
	Count  int64
	Sample any
}

type violation struct {
	Sig    string
	Replay string
	Detail string
	Count  int64
	Known  bool
}

type knownEntry struct {
	Property  string `json:"property"`
	Signature string `json:"signature"`
	Status    string `json:"status"` // known | fixed
	What      string `json:"what"`
	Commit    string `json:"commit,omitempty"`
}

// Check is the per-run context of one property check.
type Check struct {
	Prop  string
	Tier  string
	Seed  int64
	Root  string
	T     *testing.T
	start time.Time
	dl    time.Time

	ReplayFile string // non-empty: replay mode

	mu          sync.Mutex
	evaluations int64
	sigs        map[string]*sigInfo
	viol        map[string]*violation
	known       map[string]knownEntry
	states      int64
	transitions int64
	maxDepth    int
	exhaustive  bool
	caps        []string
	assumptions []string
	parts       []map[string]any
	extra       map[string]any
	internalErr []string
	level       string
	rule        string
	timedOut    atomic.Bool
	memChecked  atomic.Int64
	memOver     atomic.Bool
}

// ExitCode is read by TestMain of each check package.
var ExitCode atomic.Int32

// Start creates the context from the environment (VERIF_TIER, VERIF_SEED,
// VERIF_ROOT, VERIF_REPLAY, VERIF_DEADLINE_S).
func Start(t *testing.T, prop string) *Check {
	c := &Check{Prop: prop, T: t, start: time.Now(), sigs: map[string]*sigInfo{}, viol: map[string]*violation{},
		known: map[string]knownEntry{}, exhaustive: true, extra: map[string]any{}, level: "model_checking"}
	c.Tier = os.Getenv("VERIF_TIER")
	if c.Tier != "thorough" {
		c.Tier = "quick"
	}
	c.Seed, _ = strconv.ParseInt(os.Getenv("VERIF_SEED"), 10, 64)
	c.Root = os.Getenv("VERIF_ROOT")
	if c.Root == "" {
		c.Root = "/verif"
	}
	c.ReplayFile = os.Getenv("VERIF_REPLAY")
	secs := 150.0
	if c.Tier == "thorough" {
		secs = 1500
	}
	if v, err := strconv.ParseFloat(os.Getenv("VERIF_DEADLINE_S"), 64); err == nil && v > 0 {
		secs = v
	}
	c.dl = c.start.Add(time.Duration(secs * float64(time.Second)))
	// known findings: /verif/known_findings/<ID>.json (committed, never written at run time)
	if b, err := os.ReadFile(filepath.Join(c.Root, "known_findings", prop+".json")); err == nil {
		var f struct {
			Findings []knownEntry `json:"findings"`
		}
		if err := json.Unmarshal(b, &f); err != nil {
			c.Internal("known_findings/" + prop + ".json unreadable: " + err.Error())
		}
		for _, e := range f.Findings {
			if e.Property == prop && e.Status == "known" {
				c.known[e.Signature] = e
			}
		}
	}
	return c
}

// Thorough reports whether the thorough tier was requested.
func (c *Check) Thorough() bool { return c.Tier == "thorough" }

// Pick returns q for the quick tier and th for the thorough tier.
func Pick[T any](c *Check, q, th T) T {
	if c.Thorough() {
		return th
	}
	return q
}

// Expired reports whether the internal deadline has passed (the run then ends
// with exhaustive=false and exit 0).
func (c *Check) Expired() bool {
	if c.timedOut.Load() {
		return true
	}
	now := time.Now()
	if now.After(c.dl) {
		c.timedOut.Store(true)
		c.mu.Lock()
		c.exhaustive = false
		c.mu.Unlock()
		return true
	}
	// memory guard: an exploration whose bookkeeping (state caches, frontiers) outgrows the budget
	// ends like one that ran out of time - exhaustive=false, exit 0 - instead of being OOM-killed
	// (not sticky: the part that outgrew the budget stops, a later part starts with what the
	// collector gives back)
	every := int64(time.Second)
	if c.memOver.Load() {
		every = int64(200 * time.Millisecond) // re-examine soon: the part that stopped releases its bookkeeping
	}
	if last := c.memChecked.Load(); now.UnixNano()-last > every && c.memChecked.CompareAndSwap(last, now.UnixNano()) {
		var ms runtime.MemStats
		runtime.ReadMemStats(&ms)
		if ms.HeapAlloc > memLimit() {
			runtime.GC()
			runtime.ReadMemStats(&ms)
		}
		over := ms.HeapAlloc > memLimit()
		if over && !c.memOver.Load() {
			c.Cap(fmt.Sprintf("memory budget reached (heap %d MiB > %d MiB): the running part stopped like at a deadline", ms.HeapAlloc>>20, memLimit()>>20))
		}
		c.memOver.Store(over)
	}
	return c.memOver.Load()
}

func memLimit() uint64 {
	if v, err := strconv.ParseFloat(os.Getenv("VERIF_MEM_GB"), 64); err == nil && v > 0 {
		return uint64(v * float64(1<<30))
	}
	return 6 << 30
}

// Cap records that a bound was hit and what was covered below it.
func (c *Check) Cap(s string) {
	c.mu.Lock()
	c.exhaustive = false
	c.caps = append(c.caps, s)
	c.mu.Unlock()
}

// Assume records an assumption / trusted-base statement for the evidence.
func (c *Check) Assume(s ...string) {
	c.mu.Lock()
	c.assumptions = append(c.assumptions, s...)
	c.mu.Unlock()
}

// SetLevel overrides the evidence level (default model_checking).
func (c *Check) SetLevel(l string) { c.level = l }

// SetRule sets the human description of how cases are enumerated.
func (c *Check) SetRule(r string) { c.rule = r }

// Extra stores an additional coverage key.
func (c *Check) Extra(k string, v any) {
	c.mu.Lock()
	c.extra[k] = v
	c.mu.Unlock()
}

// Internal records an internal error of the machinery (exit 3, never a VIOLATION).
func (c *Check) Internal(msg string) {
	c.mu.Lock()
	c.internalErr = append(c.internalErr, msg)
	c.mu.Unlock()
}

// AddStates lets explorers report state-graph sizes.
func (c *Check) AddStates(states, transitions int64, depth int) {
	c.mu.Lock()
	c.states += states
	c.transitions += transitions
	if depth > c.maxDepth {
		c.maxDepth = depth
	}
	c.mu.Unlock()
}

var unsafeChars = regexp.MustCompile(`[^A-Za-z0-9._-]+`)

// Record accounts one execution. part names the sub-exploration; replay is
// called (at most once per signature) to obtain the replayable description.
func (c *Check) Record(part string, r Result, replay func() any) {
	key := part + "|" + r.Rule + "|" + r.Outcome
	c.mu.Lock()
	c.evaluations++
	si := c.sigs[key]
	if si == nil {
		si = &sigInfo{}
		c.sigs[key] = si
		if replay != nil && len(c.sigs) <= 400 {
			si.Sample = map[string]any{"part": part, "rule": r.Rule, "outcome": r.Outcome, "case": replay()}
		}
	}
	si.Count++
	if r.Sig == "" {
		c.mu.Unlock()
		return
	}
	v := c.viol[r.Sig]
	if v != nil {
		v.Count++
		c.mu.Unlock()
		return
	}
	v = &violation{Sig: r.Sig, Detail: r.Detail, Count: 1}
	_, v.Known = c.known[r.Sig]
	c.viol[r.Sig] = v
	c.mu.Unlock()

	var desc any
	if replay != nil {
		desc = replay()
	}
	dir := filepath.Join(c.Root, "replays", c.Prop)
	if os.Getenv("VERIF_NO_EVIDENCE") != "" {
		dir = filepath.Join(c.Root, ".build", "mutant-replays", c.Prop)
	}
	os.MkdirAll(dir, 0o755)
	name := unsafeChars.ReplaceAllString(r.Sig, "_")
	if len(name) > 120 {
		name = name[:120]
	}
	p := filepath.Join(dir, name+".json")
	b, _ := json.MarshalIndent(map[string]any{
		"property": c.Prop, "signature": r.Sig, "part": part, "rule": r.Rule,
		"observed": r.Outcome, "detail": r.Detail, "case": desc,
	}, "", " ")
	if c.ReplayFile == "" {
		os.WriteFile(p, b, 0o644)
	}
	c.mu.Lock()
	v.Replay = p
	c.mu.Unlock()
}

// Finish writes the evidence file, prints VIOLATION / KNOWN-FINDING lines and
// sets the process exit code.
func (c *Check) Finish() {
	c.mu.Lock()
	defer c.mu.Unlock()
	wall := time.Since(c.start).Seconds()

	sigKeys := make([]string, 0, len(c.sigs))
	for k := range c.sigs {
		sigKeys = append(sigKeys, k)
	}
	sort.Strings(sigKeys)
	samples := []any{}
	outcomes := map[string]int64{}
	for _, k := range sigKeys {
		si := c.sigs[k]
		outcomes[k] = si.Count
		if si.Sample != nil && len(samples) < 40 {
			samples = append(samples, si.Sample)
		}
	}
	if len(samples) == 0 {
		samples = append(samples, "no executions")
	}
	nviol := 0
	vkeys := make([]string, 0, len(c.viol))
	for k := range c.viol {
		vkeys = append(vkeys, k)
	}
	sort.Strings(vkeys)
	vlist := []any{}
	for _, k := range vkeys {
		v := c.viol[k]
		if v.Known {
			fmt.Printf("KNOWN-FINDING: property=%s %s (%s; %d executions)\n", c.Prop, v.Sig, c.known[v.Sig].What, v.Count)
		} else {
			nviol++
			fmt.Printf("VIOLATION property=%s replay=%s\n", c.Prop, v.Replay)
			fmt.Printf("  signature=%s executions=%d\n  %s\n", v.Sig, v.Count, v.Detail)
		}
		vlist = append(vlist, map[string]any{"signature": v.Sig, "known": v.Known, "executions": v.Count, "replay": v.Replay, "detail": v.Detail})
	}
	for k, e := range c.known {
		if _, seen := c.viol[k]; !seen && c.ReplayFile == "" && c.exhaustive {
			fmt.Printf("NOTE: known finding %s (%s) did not reproduce in this run\n", k, e.What)
		}
	}
	states := c.states
	trans := c.transitions
	if states == 0 {
		states = c.evaluations
	}
	if trans == 0 {
		trans = c.evaluations
	}
	rule := c.rule
	if rule == "" {
		rule = "exhaustive enumeration; distinct = distinct (part, oracle rule, observed outcome class) triples"
	}
	cov := map[string]any{
		"evaluations":                   c.evaluations,
		"distinct_nontrivial":           len(c.sigs),
		"rule":                          rule,
		"samples":                       samples,
		"states":                        states,
		"transitions":                   trans,
		"traces_validated_against_impl": trans,
		"exhaustive":                    c.exhaustive,
		"max_depth":                     c.maxDepth,
		"outcome_histogram":             outcomes,
		"caps":                          c.caps,
		"violations_detail":             vlist,
		"workers":                       Workers(),
	}
	for k, v := range c.extra {
		cov[k] = v
	}
	ev := map[string]any{
		"property_id": c.Prop, "tier": c.Tier, "seed": c.Seed, "level": c.level,
		"coverage": cov, "assumptions": c.assumptions, "wall_s": wall, "violations": nviol,
	}
	if len(c.internalErr) > 0 {
		ev["internal_errors"] = c.internalErr
	}
	b, _ := json.MarshalIndent(ev, "", " ")
	if c.ReplayFile == "" && os.Getenv("VERIF_NO_EVIDENCE") == "" {
		os.MkdirAll(filepath.Join(c.Root, "evidence"), 0o755)
		if err := os.WriteFile(filepath.Join(c.Root, "evidence", c.Prop+".json"), b, 0o644); err != nil {
			c.internalErr = append(c.internalErr, "cannot write evidence: "+err.Error())
		}
	}
	fmt.Printf("SUMMARY property=%s tier=%s evaluations=%d distinct=%d states=%d transitions=%d exhaustive=%v violations=%d known=%d wall=%.1fs\n",
		c.Prop, c.Tier, c.evaluations, len(c.sigs), states, trans, c.exhaustive, nviol, len(c.viol)-nviol, wall)
	for i, e := range c.internalErr {
		if i < 20 {
			fmt.Printf("INTERNAL-ERROR property=%s %s\n", c.Prop, e)
		}
	}
	switch {
	case nviol > 0:
		// a violation that was reproduced on every re-run stands on its own, whatever else went wrong in the run
		ExitCode.Store(1)
	case len(c.internalErr) > 0:
		ExitCode.Store(3)
	}
}

// Workers is the number of parallel workers (VERIF_WORKERS or NumCPU).
func Workers() int {
	if v, err := strconv.Atoi(os.Getenv("VERIF_WORKERS")); err == nil && v > 0 {
		return v
	}
	n := runtime.NumCPU()
	if n > 16 {
		n = 16
	}
	return n
}

// Main is called from TestMain of each check package.
func Main(m *testing.M) {
	code := m.Run()
	if ec := int(ExitCode.Load()); ec != 0 {
		os.Exit(ec)
	}
	if code != 0 {
		os.Exit(3) // a failing test without a recorded violation is an internal error
	}
	os.Exit(0)
}

// LoadReplay reads the "case" member of a replay file into dst.
func (c *Check) LoadReplay(dst any) (part string, err error) {
	b, err := os.ReadFile(c.ReplayFile)
	if err != nil {
		return "", err
	}
	var f struct {
		Part string          `json:"part"`
		Case json.RawMessage `json:"case"`
	}
	if err := json.Unmarshal(b, &f); err != nil {
		return "", err
	}
	return f.Part, json.Unmarshal(f.Case, dst)
}

// Safe runs f and converts a panic into a string (empty when none).
func Safe(f func()) (panicked string) {
	defer func() {
		if r := recover(); r != nil {
			buf := make([]byte, 2048)
			n := runtime.Stack(buf, false)
			panicked = fmt.Sprintf("%v\n%s", r, firstFrames(string(buf[:n])))
		}
	}()
	f()
	return ""
}

func firstFrames(s string) string {
	lines := strings.Split(s, "\n")
	out := []string{}
	for _, l := range lines {
		if strings.Contains(l, "/repo/") || strings.Contains(l, "zitadel/oidc") {
			out = append(out, strings.TrimSpace(l))
			if len(out) >= 6 {
				break
			}
		}
	}
	return strings.Join(out, " | ")
}
