package engine

// LastPart returns the summary (states, transitions, depth_completed,
// frontier_left, max_depth) of the most recent RunE2 exploration, nil if none.
// Added for C07, which claims a fixed point (empty frontier) and wants to flag
// the run as capped when the claim does not hold.
func (c *Check) LastPart() map[string]any {
	c.mu.Lock()
	defer c.mu.Unlock()
	if len(c.parts) == 0 {
		return nil
	}
	return c.parts[len(c.parts)-1]
}
