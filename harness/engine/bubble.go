package engine

import (
	"testing"
	"testing/synctest"
	"time"
)

// Epoch is the instant at which every synctest bubble starts its fake clock.
var Epoch = time.Date(2000, 1, 1, 0, 0, 0, 0, time.UTC)

// Bubble runs f inside a fresh synctest bubble whose fake clock has been
// advanced to Epoch+offset. time.Now() in the code under test reads that clock,
// so time-dependent behaviour is decided exactly, never raced. A panic in f is
// returned as a string.
func Bubble(t *testing.T, offset time.Duration, f func()) (panicked string) {
	synctest.Test(t, func(*testing.T) {
		if offset > 0 {
			time.Sleep(offset)
		}
		panicked = Safe(f)
	})
	return panicked
}
