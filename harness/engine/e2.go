package engine

import (
	"fmt"
	"sync"
	"sync/atomic"
	"time"
)

// E2 is an explicit-state breadth-first search over the real transition
// function. A state value S must be immutable once published (Step works on a
// clone). Every transition is judged (Result), so merging states by Canon never
// skips a check.
type E2[S any] struct {
	Part      string
	Init      S
	Ops       func(s S) []string                           // enabled operation labels, fixed order, simplest first
	NewStep   func(w int) func(s S, op string) (S, Result) // executes op on the real code from (a clone of) s
	Canon     func(s S) string                             // canonical form of the property-relevant state
	MaxDepth  int
	MaxStates int // safety cap (reported, never silent)
}

// e2q is a violation candidate of one BFS level that did not reproduce while the other workers were running.
type e2q struct {
	i            int
	first, other Result
}

type e2node[S any] struct {
	st     S
	parent int
	op     string
	depth  int
}

// RunE2 explores level by level on Workers() goroutines.
func RunE2[S any](c *Check, e E2[S]) {
	if c.ReplayFile != "" {
		var path []string
		part, err := c.LoadReplay(&path)
		if err != nil {
			c.Internal("replay: " + err.Error())
			return
		}
		if part != e.Part {
			return
		}
		step := e.NewStep(0)
		s := e.Init
		for i, op := range path {
			ns, r := step(s, op)
			fmt.Printf("REPLAY step %d op=%s rule=%s outcome=%s sig=%q %s\n", i, op, r.Rule, r.Outcome, r.Sig, r.Detail)
			if i == len(path)-1 {
				c.Record(e.Part, r, func() any { return path })
			}
			s = ns
		}
		return
	}
	nodes := []e2node[S]{{st: e.Init, parent: -1}}
	seen := map[string]int{e.Canon(e.Init): 0}
	frontier := []int{0}
	var transitions int64
	W := Workers()
	steps := make([]func(S, string) (S, Result), W)
	for i := range steps {
		steps[i] = e.NewStep(i)
	}
	pathOf := func(n int, op string) []string {
		var p []string
		for n >= 0 && nodes[n].parent >= 0 {
			p = append([]string{nodes[n].op}, p...)
			n = nodes[n].parent
		}
		return append(p, op)
	}
	type job struct {
		node int
		op   string
	}
	type done struct {
		job
		st S
		r  Result
	}
	depthDone := 0
	capped := false
	for depth := 0; depth < e.MaxDepth && len(frontier) > 0; depth++ {
		var jobs []job
		for _, n := range frontier {
			for _, op := range e.Ops(nodes[n].st) {
				jobs = append(jobs, job{n, op})
			}
		}
		results := make([]done, len(jobs))
		var wg sync.WaitGroup
		var qmu sync.Mutex
		var quar []e2q
		next := make(chan int, W)
		for w := 0; w < W; w++ {
			wg.Add(1)
			go func(w int) {
				defer wg.Done()
				for i := range next {
					j := jobs[i]
					ns, r := steps[w](nodes[j.node].st, j.op)
					if r.Sig != "" {
						for k := 0; k < 2; k++ {
							if _, r2 := steps[w](nodes[j.node].st, j.op); r2.Sig != r.Sig {
								// settled after this level, with nothing else running (see settle below and e1.go)
								qmu.Lock()
								if len(quar) < 64 {
									quar = append(quar, e2q{i, r, r2})
								}
								qmu.Unlock()
								r.Sig = ""
								break
							}
						}
					}
					results[i] = done{j, ns, r}
				}
			}(w)
		}
		stopped := false
		limit := len(jobs)
		for i := range jobs {
			if i%256 == 0 && c.Expired() {
				stopped = true
				limit = i
				break
			}
			next <- i
		}
		close(next)
		wg.Wait()
		// non-reproducible candidates of this level: alone x3 (unstable => internal error; stable and violating => a
		// violation); stable and fine => only disturbed while other transitions ran: the disturbed transitions are then
		// executed against each other from free-running goroutines and a difference from the sequential reference is
		// an interference violation (supplementary, schedules sampled; without an observed difference: internal error)
		if len(quar) > 0 {
			var pool []e2q
			for _, q := range quar {
				j := jobs[q.i]
				_, r0 := steps[0](nodes[j.node].st, j.op)
				stable := true
				for k := 0; k < 2; k++ {
					if _, r2 := steps[0](nodes[j.node].st, j.op); r2.Sig != r0.Sig || r2.Outcome != r0.Outcome {
						stable = false
					}
				}
				switch {
				case !stable:
					c.Internal(fmt.Sprintf("violation candidate not reproducible in %s path %v, also when executed alone: %q vs %q", e.Part, pathOf(j.node, j.op), q.first.Sig, q.other.Sig))
				case r0.Sig != "":
					results[q.i].r = r0
				default:
					pool = append(pool, q)
				}
			}
			if len(pool) > 0 {
				refs := make([]Result, len(pool))
				for k, q := range pool {
					j := jobs[q.i]
					_, refs[k] = steps[0](nodes[j.node].st, j.op)
				}
				var found atomic.Int64
				found.Store(-1)
				var got atomic.Pointer[Result]
				end := time.Now().Add(10 * time.Second)
				var wg2 sync.WaitGroup
				for w := 0; w < W; w++ {
					wg2.Add(1)
					go func(w int) {
						defer wg2.Done()
						for round := 0; found.Load() < 0 && time.Now().Before(end); round++ {
							for x := range pool {
								k := (x + w*5 + round) % len(pool)
								j := jobs[pool[k].i]
								if _, r := steps[w](nodes[j.node].st, j.op); r.Outcome != refs[k].Outcome || r.Sig != refs[k].Sig {
									if found.CompareAndSwap(-1, int64(k)) {
										got.Store(&r)
									}
									return
								}
							}
						}
					}(w)
				}
				wg2.Wait()
				if k := found.Load(); k >= 0 && got.Load() != nil {
					j := jobs[pool[k].i]
					g := got.Load()
					results[pool[k].i].r = Bad(refs[k].Rule, g.Outcome, c.Prop+"/interference/"+e.Part+"/result-depends-on-concurrent-calls",
						fmt.Sprintf("path %v: executed alone (3x) the last step yields %q; executed while other goroutines run other transitions it yielded %q %s - requests disturb each other through state shared inside the library (free-running confirmation, schedules sampled)",
							pathOf(j.node, j.op), refs[k].Outcome, g.Outcome, g.Detail))
				} else {
					seenSig := map[string]bool{}
					for _, q := range pool {
						if !seenSig[q.first.Sig] {
							j := jobs[q.i]
							c.Internal(fmt.Sprintf("violation candidate not reproducible in %s path %v: %q vs %q (alone it is stable and fine; no interference reproduced)", e.Part, pathOf(j.node, j.op), q.first.Sig, q.other.Sig))
						}
						seenSig[q.first.Sig] = true
					}
				}
			}
		}
		var nf []int
		for _, d := range results[:limit] {
			transitions++
			dd := d
			c.Record(e.Part, d.r, func() any { return pathOf(dd.node, dd.op) })
			k := e.Canon(d.st)
			if _, ok := seen[k]; ok {
				continue
			}
			if e.MaxStates > 0 && len(nodes) >= e.MaxStates {
				capped = true
				continue
			}
			seen[k] = len(nodes)
			nodes = append(nodes, e2node[S]{st: d.st, parent: d.node, op: d.op, depth: depth + 1})
			nf = append(nf, len(nodes)-1)
		}
		frontier = nf
		if stopped {
			c.Cap(fmt.Sprintf("%s: deadline reached while expanding depth %d; depths < %d fully expanded", e.Part, depth+1, depth+1))
			break
		}
		depthDone = depth + 1
	}
	if capped {
		c.Cap(fmt.Sprintf("%s: state cap %d reached", e.Part, e.MaxStates))
	}
	c.AddStates(int64(len(nodes)), transitions, depthDone)
	c.mu.Lock()
	c.parts = append(c.parts, map[string]any{"part": e.Part, "states": len(nodes), "transitions": transitions,
		"depth_completed": depthDone, "frontier_left": len(frontier), "max_depth": e.MaxDepth})
	c.extra["parts"] = c.parts
	c.mu.Unlock()
}
