package engine

import (
	"fmt"
	"sync"
	"sync/atomic"
)

// E3 is the stateless schedule explorer: depth-first search over choice
// sequences with an iterated preemption bound and happens-before state caching.
//
// One execution = one call of Run, which drives the real code under a
// cooperative scheduler and calls ch.Choose at every scheduling step with the
// enabled choices in canonical order (options of the goroutine that ran last
// first, then the other goroutines in order of creation, then free environment
// events). Choice 0 is the default ("keep running"). A *preemption* is choosing
// another goroutine while the one that ran last is still enabled; environment
// events are free and do not change who "ran last".
type E3 struct {
	Part  string
	Bound int                                       // preemption bound (explored completely for 0..Bound)
	Scens []any                                     // scenario descriptions (JSON-able; go into replay files)
	Run   func(w int, scen int, ch *Chooser) Result // executes one schedule of scenario scen on the real code
}

// E3Choice is one enabled alternative at a scheduling step.
type E3Choice struct {
	Thread string // goroutine id; "" for a free environment event
	Label  string // deterministic description (used to detect replay divergence)
}

type e3step struct {
	n      int // number of enabled choices
	chosen int
	label  string
	cost   int // preemptions consumed before this step
	pcost  []int8
}

// Chooser is handed to Run; it replays a prefix, then takes defaults.
type Chooser struct {
	prefix    []int
	labels    []string // expected labels for the prefix ("" = unknown)
	strict    bool     // replay mode: the whole sequence is given
	steps     []e3step
	last      string
	used      int
	bound     int
	visited   *sync.Map
	prunedAt  int // first step index at which the state was already visited (-1: none)
	Diverged  string
	newStates int
	keyPrefix string
}

// Trace returns the labels of the choices taken so far.
func (c *Chooser) Trace() []string {
	out := make([]string, len(c.steps))
	for i, s := range c.steps {
		out[i] = s.label
	}
	return out
}

// Preemptions is the number of preemptions used so far.
func (c *Chooser) Preemptions() int { return c.used }

// Choose returns the index of the choice to take. key is the canonical state key
// before the choice (empty disables caching for this step).
func (c *Chooser) Choose(enabled []E3Choice, key string) int {
	k := len(c.steps)
	lastEnabled := false
	if c.last != "" {
		for _, e := range enabled {
			if e.Thread == c.last {
				lastEnabled = true
				break
			}
		}
	}
	pc := make([]int8, len(enabled))
	for i, e := range enabled {
		if lastEnabled && e.Thread != "" && e.Thread != c.last {
			pc[i] = 1
		}
	}
	pick := 0
	if k < len(c.prefix) {
		pick = c.prefix[k]
		if pick >= len(enabled) {
			c.Diverged = fmt.Sprintf("step %d: choice %d out of range (%d enabled)", k, pick, len(enabled))
			pick = 0
		} else if k < len(c.labels) && c.labels[k] != "" && c.labels[k] != enabled[pick].Label {
			c.Diverged = fmt.Sprintf("step %d: expected %q, found %q", k, c.labels[k], enabled[pick].Label)
		}
	} else if !c.strict && c.visited != nil && key != "" && c.prunedAt < 0 {
		// state caching: (key, who ran last) with the largest remaining budget seen
		full := c.keyPrefix + key + "#" + c.last
		rem := c.bound - c.used
		for {
			v, loaded := c.visited.LoadOrStore(full, rem)
			if !loaded {
				c.newStates++
				break
			}
			if v.(int) >= rem {
				c.prunedAt = k
				break
			}
			if c.visited.CompareAndSwap(full, v, rem) {
				break
			}
		}
	}
	c.steps = append(c.steps, e3step{n: len(enabled), chosen: pick, label: enabled[pick].Label, cost: c.used, pcost: pc})
	c.used += int(pc[pick])
	if enabled[pick].Thread != "" {
		c.last = enabled[pick].Thread
	}
	return pick
}

type e3task struct {
	scen   int
	prefix []int
	labels []string
}

// RunE3 explores all schedules of e within the preemption bound.
func (c *Check) RunE3(e E3) {
	if c.ReplayFile != "" {
		var rp struct {
			Choices []int    `json:"choices"`
			Labels  []string `json:"labels"`
			Scen    int      `json:"scenario_index"`
		}
		part, err := c.LoadReplay(&rp)
		if err != nil {
			c.Internal("replay: " + err.Error())
			return
		}
		if part != e.Part {
			return
		}
		ch := &Chooser{prefix: rp.Choices, labels: rp.Labels, strict: true, prunedAt: -1, bound: 1 << 30}
		if rp.Scen < 0 || rp.Scen >= len(e.Scens) {
			c.Internal("replay: scenario index out of range")
			return
		}
		r := e.Run(0, rp.Scen, ch)
		for i, l := range ch.Trace() {
			fmt.Printf("REPLAY step %d: %s\n", i, l)
		}
		if ch.Diverged != "" {
			c.Internal("replay diverged: " + ch.Diverged)
		}
		fmt.Printf("REPLAY part=%s rule=%s outcome=%s sig=%q\n  %s\n", e.Part, r.Rule, r.Outcome, r.Sig, r.Detail)
		c.Record(e.Part, r, func() any { return rp })
		return
	}
	var execs, steps, pruned, states, maxLen, maxPre int64
	stopped := false
	W := Workers()
	left := 0
	// Scenarios are explored in groups of W: state keys carry the scenario index, so nothing is
	// shared between scenarios and the state cache of a finished group can be dropped (memory).
	for g0 := 0; g0 < len(e.Scens) && !stopped; g0 += W {
		g1 := min(g0+W, len(e.Scens))
		var visited sync.Map
		var mu sync.Mutex
		cond := sync.NewCond(&mu)
		var stack []e3task
		for i := g1 - 1; i >= g0; i-- {
			stack = append(stack, e3task{scen: i})
		}
		active := 0
		var wg sync.WaitGroup
		for w := 0; w < W; w++ {
			wg.Add(1)
			go func(w int) {
				defer wg.Done()
				first := true
				for {
					mu.Lock()
					for len(stack) == 0 && active > 0 {
						cond.Wait()
					}
					if len(stack) == 0 || stopped {
						mu.Unlock()
						cond.Broadcast()
						return
					}
					t := stack[len(stack)-1]
					stack = stack[:len(stack)-1]
					active++
					mu.Unlock()

					ch := &Chooser{prefix: t.prefix, labels: t.labels, visited: &visited, prunedAt: -1, bound: e.Bound}
					ch.keyPrefix = fmt.Sprintf("%d~", t.scen)
					r := e.Run(w, t.scen, ch)
					if ch.Diverged != "" {
						c.Internal(fmt.Sprintf("%s: replay of prefix %v (scenario %d) diverged: %s; expected labels %q; got %q", e.Part, t.prefix, t.scen, ch.Diverged, t.labels, ch.Trace()))
					}
					choices := make([]int, len(ch.steps))
					labels := make([]string, len(ch.steps))
					for i, s := range ch.steps {
						choices[i] = s.chosen
						labels[i] = s.label
					}
					rerun := func() (Result, *Chooser) {
						c2 := &Chooser{prefix: choices, labels: labels, strict: true, prunedAt: -1, bound: 1 << 30}
						return e.Run(w, t.scen, c2), c2
					}
					if first {
						first = false
						if r2, c2 := rerun(); r2.Rule != r.Rule || r2.Outcome != r.Outcome || r2.Sig != r.Sig || c2.Diverged != "" {
							c.Internal(fmt.Sprintf("%s: nondeterministic execution for %v: %+v vs %+v %s", e.Part, choices, r, r2, c2.Diverged))
						}
					}
					if r.Sig != "" {
						for i := 0; i < 4; i++ {
							if r2, c2 := rerun(); r2.Sig != r.Sig || r2.Outcome != r.Outcome || c2.Diverged != "" {
								c.Internal(fmt.Sprintf("%s: violation candidate not reproducible for %v: %+v vs %+v %s", e.Part, choices, r, r2, c2.Diverged))
								r.Sig = ""
								break
							}
						}
					}
					end := len(ch.steps)
					if ch.prunedAt >= 0 {
						end = ch.prunedAt
						atomic.AddInt64(&pruned, 1)
					}
					if ch.prunedAt < 0 || r.Sig != "" {
						// a pruned execution re-walks a known suffix: its verdict was (or will be) recorded by the first visitor
						c.Record(e.Part, r, func() any {
							m := map[string]any{"choices": choices, "labels": labels, "scenario_index": t.scen, "scenario": e.Scens[t.scen], "preemptions": ch.used}
							return m
						})
					}
					atomic.AddInt64(&execs, 1)
					atomic.AddInt64(&steps, int64(len(ch.steps)-len(t.prefix)))
					atomic.AddInt64(&states, int64(ch.newStates))
					for {
						m := atomic.LoadInt64(&maxLen)
						if int64(len(ch.steps)) <= m || atomic.CompareAndSwapInt64(&maxLen, m, int64(len(ch.steps))) {
							break
						}
					}
					for {
						m := atomic.LoadInt64(&maxPre)
						if int64(ch.used) <= m || atomic.CompareAndSwapInt64(&maxPre, m, int64(ch.used)) {
							break
						}
					}
					var kids []e3task
					for i := len(t.prefix); i < end; i++ {
						s := ch.steps[i]
						for alt := 0; alt < s.n; alt++ {
							if alt == s.chosen || s.cost+int(s.pcost[alt]) > e.Bound {
								continue
							}
							p := make([]int, i+1)
							copy(p, choices[:i])
							p[i] = alt
							l := make([]string, i)
							copy(l, labels[:i])
							kids = append(kids, e3task{t.scen, p, l})
						}
					}
					mu.Lock()
					// deepest alternatives on top: depth-first keeps the stack small
					stack = append(stack, kids...)
					active--
					if c.Expired() {
						stopped = true
					}
					mu.Unlock()
					cond.Broadcast()
				}
			}(w)
		}
		wg.Wait()
		left = len(stack)
		if stopped {
			left += 0
			c.Cap(fmt.Sprintf("%s: deadline reached with %d unexplored prefixes on the stack and %d of %d scenarios not started (preemption bound %d not completed)", e.Part, len(stack), len(e.Scens)-g1, len(e.Scens), e.Bound))
		}
	}
	_ = left
	c.AddStates(states, steps, int(maxLen))
	c.mu.Lock()
	c.parts = append(c.parts, map[string]any{"part": e.Part, "schedules": execs, "steps": steps, "pruned_by_state_cache": pruned,
		"distinct_states": states, "preemption_bound": e.Bound, "max_preemptions_used": maxPre, "longest_schedule": maxLen, "scenarios": len(e.Scens),
		"completed": !stopped})
	c.extra["parts"] = c.parts
	c.mu.Unlock()
}
