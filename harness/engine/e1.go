package engine

import (
	"encoding/json"
	"fmt"
	"strings"
	"sync"
	"sync/atomic"
	"time"
)

// Dim is one named dimension of an input space; Vals[0] is the default (valid) value.
type Dim struct {
	Name string
	Vals []string
}

// Space is an ordered list of dimensions.
type Space []Dim

// Vec is one point of a Space: an index into each dimension's alphabet.
type Vec []int

// D is shorthand for building a Dim.
func D(name string, vals ...string) Dim { return Dim{Name: name, Vals: vals} }

// Idx returns the position of dimension name.
func (s Space) Idx(name string) int {
	for i, d := range s {
		if d.Name == name {
			return i
		}
	}
	panic("engine: no dimension " + name)
}

// Get returns the value of dimension name in v.
func (s Space) Get(v Vec, name string) string {
	i := s.Idx(name)
	return s[i].Vals[v[i]]
}

// Describe renders v as name=value pairs (used in replay files and samples).
func (s Space) Describe(v Vec) map[string]string {
	m := make(map[string]string, len(s))
	for i, d := range s {
		m[d.Name] = d.Vals[v[i]]
	}
	return m
}

// FromDescription maps name=value pairs back to a vector.
func (s Space) FromDescription(m map[string]string) (Vec, error) {
	v := make(Vec, len(s))
	for i, d := range s {
		want, ok := m[d.Name]
		if !ok {
			continue
		}
		found := false
		for j, x := range d.Vals {
			if x == want {
				v[i] = j
				found = true
				break
			}
		}
		if !found {
			return nil, fmt.Errorf("value %q not in alphabet of %s", want, d.Name)
		}
	}
	return v, nil
}

// Size is the size of the full product.
func (s Space) Size() int64 {
	n := int64(1)
	for _, d := range s {
		n *= int64(len(d.Vals))
	}
	return n
}

// E1 describes one bounded-exhaustive enumeration: for every group of
// interacting dimensions the full product over that group, crossed with every
// combination of at most K deviations from the default in the remaining
// dimensions. Groups == nil and K >= len(Space) gives the full product.
type E1 struct {
	Part      string
	Space     Space
	Groups    [][]string
	Ks        []int // optional per-group deviation bound (defaults to K)
	K         int
	Skip      func(Vec) bool // vectors that are not meaningful (counted separately)
	NewWorker func(w int) func(v Vec) Result
}

// enumerate calls fn for every vector of the enumeration exactly once, in a
// fixed order (fewest deviations first within each group).
func (e *E1) enumerate(fn func(Vec) bool) {
	n := len(e.Space)
	groups := e.Groups
	if len(groups) == 0 {
		groups = [][]string{{}}
	}
	gidx := make([][]bool, len(groups))
	for gi, g := range groups {
		in := make([]bool, n)
		for _, name := range g {
			in[e.Space.Idx(name)] = true
		}
		gidx[gi] = in
	}
	kOf := func(gi int) int {
		if gi < len(e.Ks) {
			return e.Ks[gi]
		}
		return e.K
	}
	devOutside := func(v Vec, in []bool) int {
		c := 0
		for i, x := range v {
			if !in[i] && x != 0 {
				c++
			}
		}
		return c
	}
	stop := false
	for gi := range groups {
		in := gidx[gi]
		var gd, rest []int
		for i := 0; i < n; i++ {
			if in[i] {
				gd = append(gd, i)
			} else {
				rest = append(rest, i)
			}
		}
		v := make(Vec, n)
		emit := func() {
			for gj := 0; gj < gi; gj++ {
				if devOutside(v, gidx[gj]) <= kOf(gj) {
					return // already produced by an earlier group
				}
			}
			out := make(Vec, n)
			copy(out, v)
			if !fn(out) {
				stop = true
			}
		}
		// deviations over rest: choose subsets of size k (0..K), each with all non-default values
		var recRest func(start, left int)
		var fullGroup func(pos int)
		fullGroup = func(pos int) {
			if stop {
				return
			}
			if pos == len(gd) {
				emit()
				return
			}
			d := gd[pos]
			for x := 0; x < len(e.Space[d].Vals) && !stop; x++ {
				v[d] = x
				fullGroup(pos + 1)
			}
			v[d] = 0
		}
		recRest = func(start, left int) {
			if stop {
				return
			}
			if left == 0 {
				fullGroup(0)
				return
			}
			for ri := start; ri < len(rest) && !stop; ri++ {
				d := rest[ri]
				for x := 1; x < len(e.Space[d].Vals) && !stop; x++ {
					v[d] = x
					recRest(ri+1, left-1)
				}
				v[d] = 0
			}
		}
		for k := 0; k <= kOf(gi) && k <= len(rest) && !stop; k++ {
			recRest(0, k)
		}
		if stop {
			return
		}
	}
}

// Count returns the number of vectors the enumeration will produce (before Skip).
func (e *E1) Count() int64 {
	var n int64
	e.enumerate(func(Vec) bool { n++; return true })
	return n
}

// RunE1 executes the enumeration on Workers() goroutines.
func (c *Check) RunE1(e E1) {
	if c.ReplayFile != "" {
		var desc map[string]string
		part, err := c.LoadReplay(&desc)
		if err != nil {
			c.Internal("replay: " + err.Error())
			return
		}
		if part != e.Part {
			return
		}
		if desc["__concurrent_with"] != "" {
			c.replayConcurrent(&e, desc)
			return
		}
		v, err := e.Space.FromDescription(desc)
		if err != nil {
			c.Internal("replay: " + err.Error())
			return
		}
		r := e.NewWorker(0)(v)
		fmt.Printf("REPLAY part=%s case=%v\n  rule=%s outcome=%s sig=%q\n  %s\n", e.Part, desc, r.Rule, r.Outcome, r.Sig, r.Detail)
		c.Record(e.Part, r, func() any { return desc })
		return
	}
	W := Workers()
	ch := make(chan []Vec, 4*W)
	var wg sync.WaitGroup
	var qmu sync.Mutex
	var quarantine []quarantined
	var skipped int64
	var smu sync.Mutex
	for w := 0; w < W; w++ {
		wg.Add(1)
		go func(w int) {
			defer wg.Done()
			run := e.NewWorker(w)
			first := true
			for batch := range ch {
				for _, v := range batch {
					r := run(v)
					if first {
						// determinism obligation: the first case of every worker is executed twice
						first = false
						r2 := run(v)
						if r2.Rule != r.Rule || r2.Outcome != r.Outcome || r2.Sig != r.Sig {
							c.Internal(fmt.Sprintf("nondeterministic execution in %s for %v: %+v vs %+v", e.Part, e.Space.Describe(v), r, r2))
						}
					}
					if r.Sig != "" {
						// re-run every violation candidate 4 more times before believing it
						for i := 0; i < 4; i++ {
							if r2 := run(v); r2.Sig != r.Sig || r2.Outcome != r.Outcome {
								// Not believed as it stands. The other workers keep calling the library while this one
								// re-runs, so the cause may be the library (calls disturbing each other through shared
								// state) rather than the harness: decided after the enumeration, see settleQuarantine.
								qmu.Lock()
								if len(quarantine) < 64 {
									quarantine = append(quarantine, quarantined{v: append(Vec(nil), v...), batch: batch, first: r, other: r2})
								}
								qmu.Unlock()
								r.Sig = ""
								break
							}
						}
					}
					vv := v
					c.Record(e.Part, r, func() any { return e.Space.Describe(vv) })
				}
			}
		}(w)
	}
	var batch []Vec
	var produced int64
	e.enumerate(func(v Vec) bool {
		if e.Skip != nil && e.Skip(v) {
			skipped++
			return true
		}
		produced++
		batch = append(batch, v)
		if len(batch) >= 64 {
			ch <- batch
			batch = nil
			if c.Expired() {
				return false
			}
		}
		return true
	})
	if len(batch) > 0 {
		ch <- batch
	}
	close(ch)
	wg.Wait()
	c.settleQuarantine(&e, quarantine)
	smu.Lock()
	defer smu.Unlock()
	part := map[string]any{"part": e.Part, "executed": produced, "skipped_meaningless": skipped, "k": e.K, "ks": e.Ks,
		"groups": e.Groups, "dims": dimsSummary(e.Space), "full_product_size": e.Space.Size()}
	if c.timedOut.Load() {
		part["stopped_by_deadline"] = true
	}
	c.mu.Lock()
	c.parts = append(c.parts, part)
	c.extra["parts"] = c.parts
	c.mu.Unlock()
}

func dimsSummary(s Space) []string {
	out := make([]string, len(s))
	for i, d := range s {
		out[i] = fmt.Sprintf("%s[%d]", d.Name, len(d.Vals))
	}
	return out
}

// Has reports whether the space-separated list contains item.
func Has(list, item string) bool {
	for _, x := range strings.Fields(list) {
		if x == item {
			return true
		}
	}
	return false
}

// quarantined is a violation candidate that did not reproduce while the other workers were running.
type quarantined struct {
	v            Vec
	batch        []Vec
	first, other Result
}

// settleQuarantine decides, once every worker has stopped, what a non-reproducible violation candidate was.
//
//   - The case is re-executed five times with nothing else running. Unstable: the harness (or the case) is
//     nondeterministic on its own - internal error, as before.
//   - Stable and violating: the violation is real (the disturbance hid it on a re-run); recorded as such.
//   - Stable and fine: the disagreement only appeared while OTHER calls into the library ran at the same time.
//     The cases are independent by construction (every worker has its own fixtures, NewWorker(w)), so the only
//     thing they share is the library's package-level state. Confirmation: the case and the cases of its batch are
//     executed sequentially (reference results), then the same cases are executed from Workers() free-running
//     goroutines; a result that differs from its sequential reference is reported as an interference violation.
//     This confirmation is NOT exhaustive (free-running schedules are sampled); it never reports without an
//     observed disagreement, and without one the candidate stays an internal error.
func (c *Check) settleQuarantine(e *E1, qs []quarantined) {
	seen := map[string]bool{}
	var pool []Vec          // candidates that are stable and fine when executed alone
	var poolQ []quarantined // the same, with what was observed
	for _, q := range qs {
		run := e.NewWorker(0)
		seq := run(q.v)
		stable := true
		for i := 0; i < 4; i++ {
			if r2 := run(q.v); r2.Sig != seq.Sig || r2.Outcome != seq.Outcome {
				stable = false
			}
		}
		vv := q.v
		if !stable {
			if !seen[q.first.Sig] {
				c.Internal(fmt.Sprintf("violation candidate not reproducible in %s for %v, also when executed alone: %+v vs %+v", e.Part, e.Space.Describe(q.v), q.first, q.other))
			}
			seen[q.first.Sig] = true
			continue
		}
		if seq.Sig != "" {
			c.Record(e.Part, seq, func() any { return e.Space.Describe(vv) })
			continue
		}
		pool = append(pool, q.v)
		poolQ = append(poolQ, q)
	}
	if len(pool) == 0 {
		return
	}
	// the disturbed cases themselves are the best company for each other; a few neighbours from their batches are added
	cases := append([]Vec(nil), pool...)
	for _, q := range poolQ {
		for k, v := range q.batch {
			if k < 8 && len(cases) < 96 {
				cases = append(cases, v)
			}
		}
	}
	if bad, desc := c.interference(e, cases, 10*time.Second); bad != nil {
		c.Record(e.Part, *bad, func() any { return desc })
		return
	}
	for _, q := range poolQ {
		if !seen[q.first.Sig] {
			c.Internal(fmt.Sprintf("violation candidate not reproducible in %s for %v: %+v vs %+v (alone it is stable and fine; no interference reproduced)", e.Part, e.Space.Describe(q.v), q.first, q.other))
		}
		seen[q.first.Sig] = true
	}
}

// interference executes cases sequentially (reference), then concurrently from Workers() goroutines until budget is
// used up or a result differs from its reference.
func (c *Check) interference(e *E1, cases []Vec, budget time.Duration) (*Result, map[string]string) {
	ref := make([]Result, len(cases))
	run0 := e.NewWorker(0)
	for i, v := range cases {
		ref[i] = run0(v)
	}
	var found atomic.Pointer[struct {
		i   int
		got Result
	}]
	end := time.Now().Add(budget)
	var wg sync.WaitGroup
	for w := 0; w < Workers(); w++ {
		wg.Add(1)
		go func(w int) {
			defer wg.Done()
			run := e.NewWorker(w)
			for round := 0; found.Load() == nil && time.Now().Before(end); round++ {
				for k := range cases {
					i := (k + w*7 + round) % len(cases)
					if got := run(cases[i]); got.Outcome != ref[i].Outcome || got.Sig != ref[i].Sig {
						found.CompareAndSwap(nil, &struct {
							i   int
							got Result
						}{i, got})
						return
					}
				}
			}
		}(w)
	}
	wg.Wait()
	f := found.Load()
	if f == nil {
		return nil, nil
	}
	with := make([]map[string]string, 0, len(cases))
	for _, v := range cases {
		with = append(with, e.Space.Describe(v))
	}
	wb, _ := json.Marshal(with)
	desc := e.Space.Describe(cases[f.i])
	desc["__concurrent_with"] = string(wb)
	r := Bad(ref[f.i].Rule, f.got.Outcome, c.Prop+"/interference/"+e.Part+"/result-depends-on-concurrent-calls",
		fmt.Sprintf("executed alone (5x) the case yields %q; executed while other goroutines call the library with the other cases of its batch it yielded %q %s - calls disturb each other through state shared inside the library (free-running confirmation, schedules sampled)",
			ref[f.i].Outcome, f.got.Outcome, f.got.Detail))
	return &r, desc
}

// replayConcurrent re-runs an interference replay file: the recorded cases, alone and then concurrently.
func (c *Check) replayConcurrent(e *E1, desc map[string]string) {
	var with []map[string]string
	if err := json.Unmarshal([]byte(desc["__concurrent_with"]), &with); err != nil {
		c.Internal("replay: " + err.Error())
		return
	}
	var cases []Vec
	for _, d := range with {
		v, err := e.Space.FromDescription(d)
		if err != nil {
			c.Internal("replay: " + err.Error())
			return
		}
		cases = append(cases, v)
	}
	bad, d := c.interference(e, cases, 10*time.Second)
	if bad == nil {
		fmt.Printf("REPLAY part=%s concurrent replay of %d cases: no interference observed in 10s\n", e.Part, len(cases))
		return
	}
	fmt.Printf("REPLAY part=%s concurrent replay\n  sig=%q\n  %s\n", e.Part, bad.Sig, bad.Detail)
	c.Record(e.Part, *bad, func() any { return d })
}
