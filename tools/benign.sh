#!/bin/bash
# tools/benign.sh [patch-name-substring] [ID ...]
# False-alarm regression: every patch under /verif/benign/ is a change to zitadel/oidc that keeps ALL properties
# (refactor, wording, extra headers, longer device code, lazy init under sync.Once, ...). Each is injected through
# go -overlay (tools/mutant.sh; /repo untouched) and every check is run: the expected result is "no alarm" (MISSED in
# mutant.sh's vocabulary) and never an internal error. Prints one line per (patch, check) and a summary.
ROOT="$(cd "$(dirname "$0")/.." && pwd)"; cd "$ROOT"
sel="${1:-}"; shift || true
ids=("$@"); [ ${#ids[@]} -eq 0 ] && ids=($(python3 -c "import json; print(' '.join(c['property_id'] for c in json.load(open('MANIFEST.json'))['checks']))"))
bad=0
for p in benign/*${sel}*.patch; do
  for id in "${ids[@]}"; do
    out=$(tools/mutant.sh "$id" "$p" quick --no-suite 2>&1 | grep '^MUTANT')
    case "$out" in *check=MISSED*) r=quiet;; *) r="ALARM-OR-ERROR"; bad=$((bad+1));; esac
    echo "BENIGN $(basename $p .patch) $id $r ${out#*check=}"
  done
done
echo "BENIGN summary: $bad unexpected"
exit $((bad>0))
