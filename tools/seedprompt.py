import json,sys
pid=sys.argv[1]
va,vb=(sys.argv[2],sys.argv[3]) if len(sys.argv)>3 else ('a','b')
import glob,os
taken=[]
for d in sorted(glob.glob('/verif/seeded/'+pid+'-*')):
    try: taken.append(json.load(open(d+'/meta.json')).get('summary',''))
    except Exception: pass
for l in open('/verif/properties.jsonl'):
    p=json.loads(l)
    if p['id']==pid: break
print(f"""You are helping to evaluate a verification effort for the Go library zitadel/oidc (OpenID Connect RP client + OP server framework). Your job: produce TWO independent, realistic code changes to the library, each of which BREAKS the semantic property given below while the library still compiles and its existing test suite still passes — the kind of regression a maintainer could plausibly introduce (a refactor gone slightly wrong, a misplaced condition, a lost comparison, state hoisted to the wrong scope, an off-by-one in a time check, two sites that each look fine alone), NOT sabotage that any ordinary use would expose at once.

Property {p['id']} — {p['title']}
Statement: {p['statement']}
Quantified over: {p['quantifier']['text']}
Why the existing tests cannot settle it: {p['why_tests_cant']}
Code it is anchored in: {', '.join(p['anchors']['files'])}

Your scratch git worktree of the library is /tmp/seed/{pid} (detached HEAD, yours alone). Work ONLY there and in your output directory /tmp/seed-out/{pid}/. Do NOT read, list or use anything under /verif or /root/.vp, and do not touch /repo itself — your changes must be independent of any existing verification machinery.

Requirements for each of the two changes (call them {va} and {vb}; they must differ in site and mechanism):
1. It needs something SPECIFIC to manifest: a particular interleaving, a fault at a particular point, a multi-step sequence of operations, an unusual input or configuration, or two cooperating sites that each look fine alone. Ordinary happy-path use must keep working.
2. The library compiles and the full existing suite passes with the change: run, in the worktree,  `GOFLAGS=-mod=mod GOPROXY=off go test -vet=off -count=1 ./... 2>&1 | tail -30`  (no network is available; do not set GOTOOLCHAIN or GOSUMDB; it takes about a minute) and check every package reports ok (three network-dependent tests — pkg/client TestDiscover/spotify, pkg/client/rs TestNewResourceServer and TestIntrospect — fail in this sandbox with and without any change; ignore exactly those).
3. A demonstration: a Go test file (put it in the appropriate package directory of the worktree, name it zz_seed_{pid.lower()}<{va}|{vb}>_test.go) that FAILS with the change and PASSES on the unchanged code. Verify both directions yourself (save the change with `git diff > patch.diff`, go back with `git checkout -- .` and forth with `git apply patch.diff`; do NOT use `git stash`: the stash is shared with other worktrees of this repository). The demonstration must show a violation of the property statement above (not just 'behaviour changed').
4. Keep the change small (typically 1-15 lines) and compile-clean; do not modify existing test files.

Deliverables in /tmp/seed-out/{pid}/{va}/ and /tmp/seed-out/{pid}/{vb}/ : `patch.diff` (output of `git diff` for the library change ONLY, without the demo test, applicable with `git apply` at the worktree's HEAD), the demo test file (copy), and `meta.json` = {{"property":"{pid}","summary":"<one sentence: what was changed>","needs":"<what specific input/sequence/interleaving/fault/config is needed for it to manifest>","why_tests_pass":"<why the existing suite does not notice>","demo":"<file name and the go test command to run it>","ran":["<commands you ran and their outcome>"]}}. Leave the worktree at a clean HEAD state when you finish (git checkout -- . and remove untracked files). In your final message give a short description of both changes and confirm what you verified.""" + ("\n\nOther people have already produced the following changes for this property; yours must be DIFFERENT in site and mechanism from all of them, and should look at parts of the statement they leave untouched:\n- " + "\n- ".join(taken) if taken else ""))
