#!/bin/bash
# tools/seed_confirm.sh [<ID>-<variant> ...]   (default: every directory under seeded/)
# The official confirmation: apply the seeded change to /repo itself (git -C /repo apply), run the check's quick
# command exactly as MANIFEST registers it, undo (git -C /repo checkout -- .). Run only when nothing else builds from /repo.
# Appends the outcome to seeded/<name>/meta.json ("confirmed_on_repo") and regenerates seeded/INDEX.md.
set -u
ROOT="$(cd "$(dirname "$0")/.." && pwd)"; cd "$ROOT"
names=("$@"); [ ${#names[@]} -eq 0 ] && names=($(ls seeded | grep -E '^C[0-9]+-'))
[ -z "$(git -C /repo status --porcelain)" ] || { echo "/repo working tree is not clean"; exit 2; }
for n in "${names[@]}"; do
  d="seeded/$n"; id="${n%%-*}"
  [ -f "$d/patch.diff" ] || continue
  if ! git -C /repo apply --check "$ROOT/$d/patch.diff" 2>/dev/null; then echo "CONFIRM $n patch-does-not-apply"; res="patch-does-not-apply"; sigs="";
  else
    git -C /repo apply "$ROOT/$d/patch.diff"
    out=$(VERIF_NO_EVIDENCE=1 ./vcheck "$id" quick 2>&1); rc=$?
    git -C /repo checkout -- . ; git -C /repo clean -fdq
    sigs=$(echo "$out" | grep -E '^  signature=' | sed 's/^  signature=//; s/ executions.*//' | sort -u | tr '\n' ' ')
    case $rc in 1) res=DETECTED;; 0) res=MISSED;; *) res="ERROR$rc";; esac
    echo "CONFIRM $n check=$res $sigs"
  fi
  python3 - "$d/meta.json" "$res" "$sigs" "$(git -C /repo rev-parse --short HEAD)" <<'PY'
import json,sys
p,res,sigs,head=sys.argv[1:5]
try: m=json.load(open(p))
except Exception: m={}
m["confirmed_on_repo"]={"repo_head":head,"how":"git -C /repo apply patch.diff; ./vcheck <id> quick; git -C /repo checkout -- .","check_result":res,"signatures":sigs.split()}
json.dump(m,open(p,"w"),indent=1)
PY
done
python3 "$ROOT/tools/seed_index.py"
