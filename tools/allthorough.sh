#!/bin/bash
# runs every registered check's thorough tier in turn and prints one summary line each (used with `vp run`)
cd "$(dirname "$0")/.."
for i in $(seq -w 1 20); do
  id=C$i; s=$(date +%s)
  ./vcheck $id thorough > thorough.$id.log 2>&1; rc=$?
  e=$(date +%s)
  echo "$id rc=$rc secs=$((e-s)) viol=$(grep -c '^VIOLATION' thorough.$id.log) known=$(grep -c '^KNOWN-FINDING' thorough.$id.log) $(grep '^SUMMARY' thorough.$id.log | tail -1)"
done
