#!/bin/bash
# tools/coverage.sh [ID ...]  — blind-spot finder (DESIGN 4a): builds each check with statement coverage of the
# repository packages, runs its quick tier (no evidence written), and leaves profiles in .build/cover/<id>.out.
# Not part of any verdict.
set -u
ROOT="$(cd "$(dirname "$0")/.." && pwd)"
export VERIF_ROOT="$ROOT" GOFLAGS=-mod=mod GOPROXY=off GOSUMDB=off GOTOOLCHAIN=local CGO_ENABLED=0
GO=go1.26.8; B="$ROOT/.build/cover"; mkdir -p "$B"
cd "$ROOT/harness"
ids=("$@"); [ ${#ids[@]} -eq 0 ] && ids=($(ls checks))
for id in "${ids[@]}"; do
  id=$(echo $id | tr A-Z a-z)
  ov=()
  if [ -x "checks/$id/overlay.sh" ]; then "checks/$id/overlay.sh" "$B/overlay-$id.json" "$B/overlay-$id" "" >/dev/null 2>&1 && ov=(-overlay "$B/overlay-$id.json"); fi
  $GO test -c -vet=off -cover -covermode=set -coverpkg=github.com/zitadel/oidc/v3/pkg/... "${ov[@]}" -o "$B/$id.cover.test" "./checks/$id" 2>"$B/$id.build.log" || { echo "$id build failed"; continue; }
  VERIF_TIER=${TIER:-quick} VERIF_NO_EVIDENCE=1 VERIF_SEED=0 "$B/$id.cover.test" -test.run '^TestCheck' -test.timeout 0 -test.count 1 -test.coverprofile "$B/$id.out" > "$B/$id.run.log" 2>&1
  echo "$id rc=$? $(grep -c . "$B/$id.out" 2>/dev/null) profile lines"
done
