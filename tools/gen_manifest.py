#!/usr/bin/env python3-vt
"""Regenerates /verif/MANIFEST.json from tools/checks.json (one entry per claimed property)
and validates it against the schema. Properties without an entry go to not_applicable."""
import json, os, sys
root = os.path.dirname(os.path.dirname(os.path.abspath(__file__)))
spec = json.load(open(os.path.join(root, "tools", "checks.json")))
# per-check fragments: harness/checks/cNN/manifest.json = {"engine":..,"technique":..,"text":..,"note":..,"category":..}
import glob
for f in sorted(glob.glob(os.path.join(root, "harness", "checks", "c*", "manifest.json"))):
    pid = os.path.basename(os.path.dirname(f)).upper()
    if pid not in spec.get("ready", []) and "--all" not in sys.argv:
        continue  # fragment exists but the check is still being built
    spec["checks"][pid] = json.load(open(f))
for e in spec["engines"]:
    e["serves_properties"] = sorted(p for p, c in spec["checks"].items() if c.get("engine") == e["name"] or e["name"] in c.get("also_engines", []))
props = [json.loads(l)["id"] for l in open(os.path.join(root, "properties.jsonl")) if l.strip()]
baseline = json.load(open("/root/.vp/BASELINE.json"))["cmd"]
checks, na = [], []
for p in props:
    c = spec["checks"].get(p)
    if not c:
        na.append({"property_id": p, "reason": spec.get("not_applicable", {}).get(p, "check not built yet in this session; see DESIGN.md section 2 for the plan")})
        continue
    checks.append({
        "property_id": p,
        "quick_cmd": f"./vcheck {p} quick",
        "thorough_cmd": f"./vcheck {p} thorough",
        "evidence_file": f"/verif/evidence/{p}.json",
        "replay_cmd_template": f"./vcheck {p} --replay {{path}}",
        "engine": c["engine"],
        "level_claimed": {"category": c.get("category", "model_checking"), "text": c["text"], "design_ref": f"DESIGN.md §2 {p}"},
        "level_note": c["note"],
        "technique": c["technique"],
    })
m = {
    "version": 1,
    "setup_cmd": "./vcheck --setup",
    "hooks": {
        "guard": "verif-overlay",
        "enable": "no source hooks in /repo: where a check needs unexported state or a scheduling shim it generates a `go test -overlay` file from the current /repo sources at run time (harness/checks/<id>/overlay.sh)",
        "baseline_off_cmd": baseline,
        "source_commits": [],
        "add_only": True,
    },
    "engines": spec["engines"],
    "checks": checks,
    "notes": spec.get("notes", ""),
    "not_applicable": na,
}
json.dump(m, open(os.path.join(root, "MANIFEST.json"), "w"), indent=1)
try:
    import jsonschema
    jsonschema.validate(m, json.load(open("/root/.vp/MANIFEST.schema.json")))
    print("MANIFEST.json valid;", len(checks), "checks,", len(na), "not_applicable")
except ImportError:
    print("jsonschema not available; wrote MANIFEST.json unchecked")
