#!/bin/bash
# tools/mutant.sh <ID> <patch-file> [quick|thorough] [--no-suite]
# Applies a unified diff (paths relative to /repo, -p1) to COPIES of the touched files,
# injects them with `go -overlay` (/repo itself is never modified), then
#  (1) runs the repository's own pinned suite through the overlay (must still pass), and
#  (2) runs the check for <ID> through the overlay (must report a VIOLATION).
# Prints one line: MUTANT <ID> <name> suite=<pass|fail|skipped> check=<DETECTED|MISSED|ERROR rc>
set -u
ROOT="$(cd "$(dirname "$0")/.." && pwd)"
ID="$1"; PATCH="$(readlink -f "$2")"; TIER="${3:-quick}"; NOSUITE="${4:-}"
name=$(basename "$PATCH" .patch); name=$(basename "$name" .diff)
W="$ROOT/.build/mut/$ID/$name"; rm -rf "$W"; mkdir -p "$W/src"
files=$(grep -E '^\+\+\+ ' "$PATCH" | sed -E 's#^\+\+\+ (b/)?##; s#\t.*##' | grep -v '^/dev/null')
for f in $files; do mkdir -p "$W/src/$(dirname "$f")"; [ -f "/repo/$f" ] && cp "/repo/$f" "$W/src/$f"; done
( cd "$W/src" && patch -p1 -s < "$PATCH" ) || { echo "MUTANT $ID $name patch-does-not-apply"; exit 2; }
{
  echo '{"Replace":{'
  first=1
  for f in $files; do
    [ $first = 1 ] || echo ','
    first=0
    printf '"/repo/%s":"%s/src/%s"' "$f" "$W" "$f"
  done
  echo '}}'
} > "$W/overlay.json"
suite=skipped
if [ "$NOSUITE" != "--no-suite" ]; then
  if python3 "$ROOT/tools/baseline.py" --overlay "$W/overlay.json" > "$W/suite.log" 2>&1; then suite=pass; else suite=fail; fi
fi
VERIF_MUTANT_OVERLAY="$W/overlay.json" "$ROOT/vcheck" "$ID" "$TIER" > "$W/check.log" 2>&1
rc=$?
case $rc in
  1) res=DETECTED;;
  0) res=MISSED;;
  *) res="ERROR$rc";;
esac
sigs=$(grep -E '^  signature=' "$W/check.log" | sed 's/^  signature=//; s/ executions.*//' | sort -u | tr '\n' ' ')
echo "MUTANT $ID $name suite=$suite check=$res $sigs"
