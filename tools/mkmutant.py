#!/usr/bin/env python3
"""mkmutant.py <ID> <name> <repo-relative file> <old> <new>  — writes mutants/<ID>/<name>.patch
(the unique occurrence of <old> in the file replaced by <new>)."""
import sys, os, difflib
pid, name, rel, old, new = sys.argv[1:6]
src = open(os.path.join("/repo", rel)).read()
assert src.count(old) == 1, f"{name}: pattern occurs {src.count(old)} times"
dst = src.replace(old, new)
d = difflib.unified_diff(src.splitlines(True), dst.splitlines(True), "a/" + rel, "b/" + rel)
root = os.path.dirname(os.path.dirname(os.path.abspath(__file__)))
os.makedirs(os.path.join(root, "mutants", pid), exist_ok=True)
open(os.path.join(root, "mutants", pid, name + ".patch"), "w").write("".join(d))
print("wrote", name)
