#!/usr/bin/env python3
"""Runs the repository's pinned test suite (optionally through a go overlay or in another
worktree) and reports whether every test of BASELINE.json's stable_pass list passes.
usage: baseline.py [--overlay file.json] [--dir /path/to/worktree]
exit 0: all stable tests pass; 1: some fail (listed)."""
import json, subprocess, sys, os
args = sys.argv[1:]
overlay = None; d = "/repo"
while args:
    a = args.pop(0)
    if a == "--overlay": overlay = args.pop(0)
    elif a == "--dir": d = args.pop(0)
stable = set(json.load(open("/root/.vp/BASELINE.json"))["stable_pass"])
env = dict(os.environ, GOFLAGS="-mod=mod", GOPROXY="off")
env.pop("GOTOOLCHAIN", None); env.pop("GOSUMDB", None)
cmd = ["go", "test", "-mod=mod", "-json", "-vet=off", "-count=1", "-timeout", "25m"]
if overlay: cmd += ["-overlay", overlay]
cmd += ["./..."]
p = subprocess.run(cmd, cwd=d, env=env, capture_output=True, text=True)
passed = set(); failed = set(); buildfail = []
for line in p.stdout.splitlines():
    try: ev = json.loads(line)
    except Exception: continue
    if ev.get("Action") == "build-fail": buildfail.append(ev.get("ImportPath"))
    t = ev.get("Test")
    if not t: continue
    key = ev["Package"] + "::" + t
    if ev["Action"] == "pass": passed.add(key)
    elif ev["Action"] == "fail": failed.add(key)
missing = sorted(stable - passed)
print(f"stable={len(stable)} passed_of_stable={len(stable & passed)} missing_or_failed={len(missing)} buildfail={buildfail}")
for m in missing[:40]: print("  NOT PASSING:", m)
sys.exit(1 if missing or buildfail else 0)
