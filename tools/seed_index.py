#!/usr/bin/env python3
"""Regenerates seeded/INDEX.md from seeded/*/meta.json."""
import json, os, glob
root = os.path.dirname(os.path.dirname(os.path.abspath(__file__)))
rows = []
for d in sorted(glob.glob(os.path.join(root, "seeded", "C*-*"))):
    try: m = json.load(open(os.path.join(d, "meta.json")))
    except Exception: continue
    cv = m.get("coordinator_verification", {}); cf = m.get("recheck") or m.get("confirmed_on_repo", {})
    rows.append((os.path.basename(d), m.get("property", "?"), m.get("summary", "").replace("|", "/")[:160], m.get("needs", "").replace("|", "/")[:160],
                 cv.get("repo_suite_with_change", "?"), f"{cv.get('demo_with_change','?')}/{cv.get('demo_without_change','?')}",
                 cf.get("check_result") or cv.get("check_result", "?"), " ".join((cf.get("signatures") or cv.get("signatures") or [])[:3]), m.get("history", "")))
out = ["# Independent seeded breaking changes and what the checks do with them", "",
       "Each directory holds `patch.diff` (apply with `git -C /repo apply`), the author's demonstration test and `meta.json`.",
       "Authors were sub-agents that saw only the property text and a scratch worktree of /repo, never /verif.",
       "suite = repository's own 719 tests with the change; demo = demonstration with/without the change; check = the property's quick check with the change.", "",
       "| seed | what was changed | needs | suite | demo w/ / w/o | check | signatures (first 3) | note |", "|---|---|---|---|---|---|---|---|"]
for r in rows: out.append("| " + " | ".join(r) + " |")
open(os.path.join(root, "seeded", "INDEX.md"), "w").write("\n".join(out) + "\n")
print("seeded/INDEX.md:", len(rows), "seeds;", sum(1 for r in rows if r[6] == "DETECTED"), "detected")
