import json,sys
pid=sys.argv[1]
for l in open('/verif/properties.jsonl'):
    p=json.loads(l)
    if p['id']==pid: break
print(f"""You are helping to evaluate a verification effort for the Go library zitadel/oidc (OpenID Connect RP client + OP server framework). A checker is supposed to raise an alarm when the semantic property below is broken — and to stay SILENT on code where the property still holds. Your job is to produce THREE independent, realistic code changes to the library that a maintainer could plausibly make and that KEEP the property fully intact, but that change the code the property is anchored in enough to trip an over-fitted checker: refactorings (extract/inline a helper, reorder independent checks, switch↔if chains, early returns), equivalent reformulations of a comparison, different but equally valid error wording / error_description texts, a different but still correct HTTP status among those the statement allows, additional response headers, additional harmless fields, a stricter check that refuses MORE of what the statement says must be refused (never less, and never something the statement says must be accepted), caching or pooling done correctly (properly reset / properly synchronised), performance rewrites with identical results, different internal data layout.

Property {p['id']} — {p['title']}
Statement: {p['statement']}
Quantified over: {p['quantifier']['text']}
Code it is anchored in: {', '.join(p['anchors']['files'])}

Your scratch git worktree of the library is /tmp/benign/{pid} (detached HEAD, yours alone). Work ONLY there and in your output directory /tmp/benign-out/{pid}/. Do NOT read, list or use anything under /verif or /root/.vp, and do not touch /repo itself.

Requirements for each of the three changes (call them a, b, c; different sites and kinds):
1. The property statement above holds exactly as before for EVERY input, configuration, history and interleaving — be strict with yourself: think through every clause of the statement and every router / entry point the changed code serves; if in doubt choose another change. Also do not break any other obvious security or protocol behaviour of the library (the checker for other properties may run too).
2. Observable behaviour may change only where the statement leaves it open (wording of messages, which of several permitted error codes / statuses, header set, ordering of independent checks when BOTH would refuse, internal structure).
3. The library compiles and the full existing suite passes with the change: run, in the worktree,  `GOFLAGS=-mod=mod GOPROXY=off go test -vet=off -count=1 ./... 2>&1 | tail -30`  (no network; do not set GOTOOLCHAIN or GOSUMDB; about a minute; three network-dependent tests — pkg/client TestDiscover/spotify, pkg/client/rs TestNewResourceServer and TestIntrospect — fail in this sandbox with and without any change; ignore exactly those). Never run more than one go test at a time.
4. 5-40 changed lines each, compile-clean, existing test files untouched. Save each with `git diff > patch.diff` and return to a clean tree with `git checkout -- .` (do NOT use git stash).

Deliverables in /tmp/benign-out/{pid}/a/, b/, c/: `patch.diff` (applicable with `git apply` at the worktree's HEAD) and `meta.json` = {{"property":"{pid}","summary":"<one sentence: what was changed>","kind":"<refactor|wording|status|headers|stricter|caching|performance|layout>","why_property_holds":"<the argument, clause by clause where relevant>","observable_difference":"<what an outside observer could notice, if anything>","ran":["<commands and outcome>"]}}. Leave the worktree clean when you finish. In your final message describe the three changes in two lines each.""")
