#!/bin/bash
# tools/seed_reeval.sh [lanes] [ID ...]   re-runs the quick check of every stored seed (seeded/<ID>-*/patch.diff) through a
# go overlay (tools/mutant.sh --no-suite; /repo untouched), LANES properties at a time (seeds of one property run one after
# the other: they share the property's build outputs). Records the verdict in meta.json ("recheck") and regenerates INDEX.md.
set -u
ROOT="$(cd "$(dirname "$0")/.." && pwd)"; cd "$ROOT"
LANES="${1:-4}"; shift || true
ids=("$@"); [ ${#ids[@]} -eq 0 ] && ids=($(ls seeded | grep -E '^C[0-9]+-' | sed 's/-.*//' | sort -u))
mkdir -p .build/reeval
lane() { # $1 = property id
  local id="$1" n
  for d in seeded/$id-*; do
    n=$(basename "$d")
    out=$(VERIF_WORKERS="${VERIF_WORKERS:-8}" tools/mutant.sh "$id" "$d/patch.diff" quick --no-suite 2>&1 | grep '^MUTANT')
    res=$(echo "$out" | sed -E 's/.*check=([A-Z0-9]+).*/\1/'); sigs=$(echo "$out" | sed -E 's/.*check=[A-Z0-9]+ ?//')
    exh=$(grep -h '^SUMMARY' ".build/mut/$id/patch/check.log" | grep -o 'exhaustive=[a-z]*' | head -1)
    echo "REEVAL $n check=$res $exh $sigs"
    python3 - "$d/meta.json" "$res" "$sigs" "$(git -C "$ROOT" rev-parse --short HEAD)" "$(git -C /repo rev-parse --short HEAD)" <<'PY'
import json,sys
p,res,sigs,vh,rh=sys.argv[1:6]
try: m=json.load(open(p))
except Exception: m={}
m["recheck"]={"verif_head":vh,"repo_head":rh,"how":"tools/seed_reeval.sh: quick check through a go overlay of the patched files","check_result":res,"signatures":sigs.split()}
json.dump(m,open(p,"w"),indent=1)
PY
  done
}
export -f lane; export ROOT
printf '%s\n' "${ids[@]}" | xargs -P "$LANES" -I{} bash -c 'lane {}' | tee .build/reeval/last.txt
python3 tools/seed_index.py
