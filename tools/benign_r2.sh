#!/bin/bash
# tools/benign_r2.sh [lanes] [ID ...]  each benign/r2-<ID>-<v>.patch (written by an independent author against property <ID>)
# is run through the check of ITS property (go overlay, /repo untouched): expected "quiet". One lane per property.
ROOT="$(cd "$(dirname "$0")/.." && pwd)"; cd "$ROOT"
LANES="${1:-4}"; shift || true
ids=("$@"); [ ${#ids[@]} -eq 0 ] && ids=($(ls benign | grep -oE '^r2-C[0-9]+' | sed 's/r2-//' | sort -u))
lane() { id="$1"; for p in benign/r2-$id-*.patch; do
  out=$(VERIF_WORKERS="${VERIF_WORKERS:-8}" tools/mutant.sh "$id" "$p" quick --no-suite 2>&1 | grep '^MUTANT')
  case "$out" in *check=MISSED*) r=quiet;; *) r="ALARM-OR-ERROR";; esac
  echo "BENIGN $(basename $p .patch) $id $r ${out#*check=}"; done; }
export -f lane
printf '%s\n' "${ids[@]}" | xargs -P "$LANES" -I{} bash -c 'lane {}'
