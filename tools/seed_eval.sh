#!/bin/bash
# tools/seed_eval.sh <ID> <variant> [tier]   evaluates /tmp/seed-out/<ID>/<variant>/ (patch.diff, demo test, meta.json):
#  1. in a fresh scratch worktree of /repo HEAD: patch applies, repo suite still passes, demo FAILS with the change and PASSES without
#  2. the check for <ID> through a go overlay of the patched files (tools/mutant.sh): DETECTED / MISSED
#  3. stores everything under /verif/seeded/<ID>-<variant>/ (meta.json extended with what was run here)
# Official confirmation (git -C /repo apply; vcheck; git -C /repo checkout -- .) is done by tools/seed_confirm.sh when no
# other build uses /repo.
set -u
ROOT="$(cd "$(dirname "$0")/.." && pwd)"
ID="$1"; V="$2"; TIER="${3:-quick}"
SRC="/tmp/seed-out/$ID/$V"; [ -d "$SRC" ] || SRC="$ROOT/seeded/$ID-$V"
[ -f "$SRC/patch.diff" ] || { echo "no patch in $SRC"; exit 2; }
W=/tmp/seedv/$ID-$V; rm -rf "$W"; git -C /repo worktree prune; git -C /repo worktree add -q --detach "$W" HEAD || exit 2
cleanup() { git -C /repo worktree remove --force "$W" 2>/dev/null; }
trap cleanup EXIT
applies=yes; git -C "$W" apply --check "$SRC/patch.diff" 2>/tmp/seedv/$ID-$V.apply.err || applies=no
suite=na; demo_with=na; demo_without=na
demo=$(ls "$SRC"/zz_seed_*_test.go 2>/dev/null | head -1)
if [ $applies = yes ]; then
  git -C "$W" apply "$SRC/patch.diff"
  if python3 "$ROOT/tools/baseline.py" --dir "$W" > /tmp/seedv/$ID-$V.suite.log 2>&1; then suite=pass; else suite=fail; fi
  if [ -n "$demo" ]; then
    pkgdir=$(python3 -c "import json,sys,re; m=json.load(open('$SRC/meta.json')); d=m.get('demo',''); r=re.search(r'(\./)?(pkg/[A-Za-z0-9_/]+|example/[A-Za-z0-9_/]+)', d); print(r.group(2).rstrip('/') if r else '')")
    [ -d "$W/$pkgdir" ] && [ -n "$pkgdir" ] || pkgdir=$(grep -l "^package " "$demo" >/dev/null; head -50 "$demo" | grep -m1 '^package ' | awk '{print $2}' | sed 's/_test$//' | xargs -I{} find "$W/pkg" -type d -name {} | head -1 | sed "s#$W/##")
    cp "$demo" "$W/$pkgdir/"
    run=$(basename "$demo" .go | sed 's/zz_seed_//; s/_test//')
    ( cd "$W" && GOFLAGS=-mod=mod GOPROXY=off go test -vet=off -count=1 -run 'Seed' "./$pkgdir/" > /tmp/seedv/$ID-$V.demo_with.log 2>&1 ) && demo_with=pass || demo_with=fail
    git -C "$W" apply -R "$SRC/patch.diff"
    ( cd "$W" && GOFLAGS=-mod=mod GOPROXY=off go test -vet=off -count=1 -run 'Seed' "./$pkgdir/" > /tmp/seedv/$ID-$V.demo_without.log 2>&1 ) && demo_without=pass || demo_without=fail
  fi
fi
check=na; sigs=""
if [ $applies = yes ]; then
  out=$("$ROOT/tools/mutant.sh" "$ID" "$SRC/patch.diff" "$TIER" --no-suite 2>&1 | grep '^MUTANT')
  check=$(echo "$out" | sed -E 's/.*check=([A-Z0-9]+).*/\1/'); sigs=$(echo "$out" | sed -E 's/.*check=[A-Z0-9]+ ?//')
fi
D="$ROOT/seeded/$ID-$V"; mkdir -p "$D"
[ "$SRC" != "$D" ] && cp "$SRC/patch.diff" "$D/" && [ -n "$demo" ] && cp "$demo" "$D/"
python3 - "$SRC/meta.json" "$D/meta.json" <<PY
import json,sys
try: m=json.load(open(sys.argv[1]))
except Exception: m={}
m["coordinator_verification"]={"repo_head":"$(git -C /repo rev-parse --short HEAD)","patch_applies":"$applies","repo_suite_with_change":"$suite",
 "demo_with_change":"$demo_with","demo_without_change":"$demo_without","check_tier":"$TIER","check_result":"$check","signatures":"""$sigs""".split(),
 "how":"tools/seed_eval.sh: scratch worktree of /repo HEAD for suite+demo; check run through go -overlay of the patched files (tools/mutant.sh)"}
json.dump(m,open(sys.argv[2],"w"),indent=1)
PY
echo "SEED $ID-$V applies=$applies suite=$suite demo_with=$demo_with demo_without=$demo_without check=$check $sigs"
