#!/usr/bin/env python3
"""findings.py fixed <ID> <commit> [signature-substring]   mark known entries of a property as fixed by <commit>
   findings.py index                                      regenerate /verif/KNOWN_FINDINGS.txt from known_findings/*.json"""
import json, sys, glob, os
root = os.path.dirname(os.path.dirname(os.path.abspath(__file__)))
def index():
    lines = ["# Known findings (genuine defects of zitadel/oidc surfaced by the checks).",
             "# 'known:' entries are still present in /repo and are printed as KNOWN-FINDING by the check (exit 0);",
             "# 'fixed:' entries were repaired by the named fix commit in /repo and suppress nothing.",
             "# Source of truth: known_findings/<ID>.json (read by the checks; never written at run time).", ""]
    for f in sorted(glob.glob(os.path.join(root, "known_findings", "C*.json"))):
        for e in json.load(open(f))["findings"]:
            what = e["what"]
            if e["status"] == "fixed":
                if what.startswith("fixed:"):
                    lines.append(what + "  [signature " + e["signature"] + "]")
                else:
                    lines.append(f"fixed: property={e['property']} {e.get('commit','?')} {what}  [signature {e['signature']}]")
            else:
                lines.append(f"known: property={e['property']} {e['signature']} — {what}")
    open(os.path.join(root, "KNOWN_FINDINGS.txt"), "w").write("\n".join(lines) + "\n")
    print("wrote KNOWN_FINDINGS.txt,", len(lines) - 5, "entries")
if sys.argv[1] == "fixed":
    pid, commit = sys.argv[2], sys.argv[3]
    sub = sys.argv[4] if len(sys.argv) > 4 else ""
    p = os.path.join(root, "known_findings", pid + ".json")
    d = json.load(open(p))
    for e in d["findings"]:
        if e["status"] == "known" and sub in e["signature"]:
            e["status"] = "fixed"; e["commit"] = commit
    json.dump(d, open(p, "w"), indent=1)
    index()
else:
    index()
